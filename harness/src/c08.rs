//! C08 (macros): generator of macro bodies from the macro grammar in all macro forms, with
//! histories that activate them once, repeatedly, overlapping with plain keys, 2-6 concurrently and
//! with cancellation at every step; `eval`/`expand` wrappers around the layout-level machinery.
//!
//! case line: `LAY|KAN <dbg> <hex(cfg text)> HIST <n> <events> MAC <m> (<y> <form> <rep> <items>)*m
//!             PATCH <p> <y>*p FAM <family>`
//!   * `MAC` carries, for each macro key (coordinate (0,y)), the macro body as the list of items the
//!     parser classifies (num / key / chord / custom / other / list / mods / bad; see
//!     lean/KVerif/Model/MacroExpand.lean): the Lean driver expands it with the parser MODEL, the
//!     harness prints what the REAL parser produced, in the same format (`X<y>:<form><rep>:<events>`).
//!   * `PATCH`: coordinates whose layer-0 action is replaced by `Action::CancelSequences` after
//!     parsing (keyberon action that kanata's parser never emits: reachable at layout level only).
//!   * `LAY`: the bare keyberon `Layout` is driven (trace of key-code lists and custom events).
//!     `KAN`: a whole `Kanata` is driven through `handle_input_event` / `tick_ms`, so that the
//!     cancellation glue of src/kanata/mod.rs runs (trace of `prev_keys` per tick).
use crate::cfggen::code;
use crate::lay::{self, hex, hist_tokens, HEv};
use crate::rng::Rng;
use crate::ser::Ser;
use kanata_keyberon::action::{Action, SequenceEvent};
use kanata_keyberon::layout::{CustomEvent, Event};
use kanata_parser::cfg;
use kanata_parser::custom_action::CustomAction;
use kanata_parser::keys::OsCode;
use kanata_state_machine::oskbd::{KeyEvent, KeyValue};
use kanata_state_machine::Kanata;


// ------------------------------------------------------------------------------------ macro bodies

#[derive(Clone, Debug)]
pub enum B {
    Num(u32),
    Key(&'static str),
    /// output chord atom such as `C-S-q`
    Chord(Vec<&'static str>, &'static str),
    /// `(unicode c)`
    Unicode(char),
    /// custom action atom (`mlft`, `mrgt`)
    Mouse(&'static str),
    /// an atom / list that is an action of another kind (`XX`, `()`, `(multi q w)`)
    Other(&'static str),
    Group(Vec<B>),
    /// `S-C-(…)` (spaced: `S-C- (…)`)
    Held(Vec<&'static str>, Vec<B>, bool),
    /// bare modifier prefix not followed by a list
    ModsAlone(Vec<&'static str>),
    /// `O-(…)`: the overlap pseudo-modifier, valid in defseq only
    Bad(&'static str),
}

pub const MODS: [(&str, &str); 8] =
    [("S-", "lsft"), ("C-", "lctl"), ("A-", "lalt"), ("M-", "lmet"), ("RA-", "ralt"), ("RS-", "rsft"), ("RC-", "rctl"), ("RM-", "rmet")];

fn mod_code(m: &str) -> u16 {
    if m == "O-" {
        return 251; // KeyCode::ErrorRollOver
    }
    if m == "AG-" {
        return code("ralt");
    }
    code(MODS.iter().find(|x| x.0 == m).unwrap_or_else(|| panic!("harness: modifier {m}")).1)
}

pub fn custom_code(c: &CustomAction) -> u32 {
    match c {
        CustomAction::Unicode(ch) => *ch as u32,
        CustomAction::Mouse(b) => 2_000_000 + (*b as u32),
        _ => 999_999,
    }
}

fn mouse_code(name: &str) -> u32 {
    use kanata_parser::custom_action::Btn;
    2_000_000
        + match name {
            "mlft" => Btn::Left as u32,
            "mrgt" => Btn::Right as u32,
            _ => panic!("harness: mouse atom {name}"),
        }
}

pub fn body_text(b: &[B]) -> String {
    b.iter().map(item_text).collect::<Vec<_>>().join(" ")
}

fn item_text(b: &B) -> String {
    match b {
        B::Num(n) => n.to_string(),
        B::Key(k) => k.to_string(),
        B::Chord(ms, k) => format!("{}{}", ms.concat(), k),
        B::Unicode(c) => format!("(unicode {c})"),
        B::Mouse(m) => m.to_string(),
        B::Other(t) => t.to_string(),
        B::Group(items) => format!("({})", body_text(items)),
        B::Held(ms, items, spaced) => format!("{}{}({})", ms.concat(), if *spaced { " " } else { "" }, body_text(items)),
        B::ModsAlone(ms) => ms.concat(),
        B::Bad(t) => t.to_string(),
    }
}

/// the item list as classified (Model/MacroExpand.lean `Item`), prefix-tokenised with a count
pub fn body_tokens(b: &[B]) -> String {
    let mut out = vec![];
    let mut n = 0;
    for x in b {
        n += item_tokens(x, &mut out);
    }
    format!("{n} {}", out.join(" ")).trim_end().to_string()
}

fn item_tokens(b: &B, out: &mut Vec<String>) -> usize {
    match b {
        B::Num(n) => out.push(format!("n {n}")),
        B::Key(k) => out.push(format!("k {}", code(k))),
        B::Chord(ms, k) => {
            let mut v: Vec<String> = ms.iter().map(|m| mod_code(m).to_string()).collect();
            v.push(code(k).to_string());
            out.push(format!("c {} {}", v.len(), v.join(" ")));
        }
        B::Unicode(c) => out.push(format!("lu {} 0", *c as u32)),
        B::Mouse(m) => out.push(format!("u {}", mouse_code(m))),
        B::Other(t) => out.push(if t.starts_with('(') { "lo 0".to_string() } else { "o".to_string() }),
        B::Group(items) => out.push(format!("l0 {}", body_tokens(items))),
        B::Held(ms, items, _) => {
            let v: Vec<String> = ms.iter().map(|m| mod_code(m).to_string()).collect();
            out.push(format!("m {} {}", v.len(), v.join(" ")));
            out.push(format!("l0 {}", body_tokens(items)));
            return 2;
        }
        B::ModsAlone(ms) => {
            let v: Vec<String> = ms.iter().map(|m| mod_code(m).to_string()).collect();
            out.push(format!("m {} {}", v.len(), v.join(" ")));
        }
        B::Bad(_) => out.push("b".into()),
    }
    1
}

pub const FORMS: [&str; 4] = ["macro", "macro-release-cancel", "macro-cancel-on-press", "macro-release-cancel-and-cancel-on-press"];
pub const FORMS_REPEAT: [&str; 4] =
    ["macro-repeat", "macro-repeat-release-cancel", "macro-repeat-cancel-on-press", "macro-repeat-release-cancel-and-cancel-on-press"];

#[derive(Clone, Debug)]
pub struct Mac {
    pub y: u16,
    pub form: usize,
    pub rep: bool,
    pub body: Vec<B>,
}

impl Mac {
    pub fn text(&self) -> String {
        let name = if self.rep { FORMS_REPEAT[self.form] } else { FORMS[self.form] };
        format!("({name} {})", body_text(&self.body)).replace(" )", ")")
    }
    pub fn tokens(&self) -> String {
        format!("{} {} {} {}", self.y, self.form, self.rep as u8, body_tokens(&self.body))
    }
}

/// upper bound on the ticks one run of the body takes (each item at most 2 events per key + delays)
pub fn body_ticks(b: &[B]) -> u32 {
    b.iter()
        .map(|x| match x {
            B::Num(n) => *n,
            B::Key(_) => 2,
            B::Chord(ms, _) => 2 * (ms.len() as u32 + 1),
            B::Group(items) => body_ticks(items),
            B::Held(ms, items, _) => 2 * ms.len() as u32 + body_ticks(items),
            _ => 1,
        })
        .sum::<u32>()
        + 1
}

/// keys a macro key uses: its own letters and its own modifiers (so that effects are attributable)
pub struct Pool {
    pub letters: Vec<&'static str>,
    pub mods: Vec<&'static str>,
}

pub const LETTER_POOLS: [[&str; 3]; 6] = [["q", "w", "e"], ["r", "t", "y"], ["u", "i", "o"], ["p", "j", "k"], ["l", "m", "n"], ["v", "x", "z"]];

pub fn pool(i: usize) -> Pool {
    Pool { letters: LETTER_POOLS[i % 6].to_vec(), mods: vec![MODS[i % 8].0] }
}

pub fn shared_pool() -> Pool {
    Pool { letters: vec!["q", "w", "e", "r"], mods: vec!["S-", "C-", "A-", "RA-", "M-"] }
}

pub fn gen_body(r: &mut Rng, p: &Pool, depth: u32, n: usize, max_delay: u32) -> Vec<B> {
    let mut v = vec![];
    for _ in 0..n {
        let pick = r.below(if depth >= 3 { 14 } else { 20 });
        v.push(match pick {
            0..=4 => B::Key(*r.pick(&p.letters[..])),
            5..=7 => B::Num(if r.chance(1, 6) { r.range(1, max_delay as u64) as u32 } else { r.range(1, 4) as u32 }),
            8..=9 => {
                let mut ms = vec![*r.pick(&p.mods[..])];
                if p.mods.len() > 1 && r.chance(1, 3) {
                    let m2 = *r.pick(&p.mods[..]);
                    if m2 != ms[0] {
                        ms.push(m2);
                    }
                }
                B::Chord(ms, *r.pick(&p.letters[..]))
            }
            10 => B::Unicode(*r.pick(&['x', 'é', 'λ'])),
            11 => B::Mouse(*r.pick(&["mlft", "mrgt"])),
            12 => B::Key(*r.pick(&["lsft", "ralt", "ret"])),
            13 => B::Key(*r.pick(&p.letters[..])),
            14..=16 => {
                let k = r.range(0, 3) as usize;
                let mut ms = vec![*r.pick(&p.mods[..])];
                if p.mods.len() > 1 && r.chance(1, 3) {
                    let m2 = *r.pick(&p.mods[..]);
                    if m2 != ms[0] {
                        ms.push(m2);
                    }
                }
                B::Held(ms, gen_body(r, p, depth + 1, k, max_delay), r.chance(1, 5))
            }
            _ => {
                let k = r.range(1, 3) as usize;
                B::Group(gen_body(r, p, depth + 1, k, max_delay))
            }
        });
    }
    v
}

pub fn count_items(b: &[B]) -> usize {
    b.iter()
        .map(|x| match x {
            B::Group(i) | B::Held(_, i, _) => 1 + count_items(i),
            _ => 1,
        })
        .sum()
}

// ------------------------------------------------------------------------------------ configurations

pub const MAC_KEYS: [&str; 6] = ["1", "2", "3", "4", "5", "6"];
pub const PLAIN_KEYS: [&str; 3] = ["a", "b", "c"];
pub const CANCEL_KEY: &str = "0";

/// `(defsrc 1 .. a b c 0)`: macro keys, three plain keys mapped to themselves, and a key that
/// stays plain unless patched to `CancelSequences`
pub fn cfg_text(macs: &[Mac]) -> String {
    let mut src = String::from("(defsrc");
    let mut lay = String::from("(deflayer l0");
    for m in macs {
        let name = MAC_KEYS.iter().find(|k| code(k) == m.y).expect("macro key");
        src.push_str(&format!(" {name}"));
        lay.push_str(&format!(" {}", m.text()));
    }
    for k in PLAIN_KEYS.iter().chain([CANCEL_KEY].iter()) {
        src.push_str(&format!(" {k}"));
        lay.push_str(&format!(" {k}"));
    }
    format!("{src})\n{lay})\n")
}

pub fn mk_line(tag: &str, macs: &[Mac], hist: &[HEv], patch: &[u16], fam: &str) -> String {
    let mut s = format!("{tag} 0 {} {} MAC {}", hex(&cfg_text(macs)), hist_tokens(hist), macs.len());
    for m in macs {
        s.push(' ');
        s.push_str(&m.tokens());
    }
    s.push_str(&format!(" PATCH {}", patch.len()));
    for y in patch {
        s.push_str(&format!(" {y}"));
    }
    s.push_str(&format!(" FAM {fam}"));
    s
}

/// final stretch: long enough for all input to be dequeued, a run in flight to end and (repeating
/// macros) one more run
fn fin(h: &mut Vec<HEv>, dur: u32) {
    let n = h.iter().filter(|e| !matches!(e, HEv::Tick(_))).count() as u32;
    h.push(HEv::Tick(2 * dur + n + 8));
}

fn tap(h: &mut Vec<HEv>, y: u16, hold: u32, after: u32) {
    h.push(HEv::Press(0, y));
    if hold > 0 {
        h.push(HEv::Tick(hold));
    }
    h.push(HEv::Release(0, y));
    if after > 0 {
        h.push(HEv::Tick(after));
    }
}

// ------------------------------------------------------------------------------------ generator

pub fn gen(tier: &str, seed: u64) -> Vec<String> {
    let mut r = Rng::new(seed ^ 0xC08);
    let thorough = tier == "thorough";
    let mut lines = vec![];
    let mk = |i: usize| code(MAC_KEYS[i]);
    let (ka, kb, kc, k0) = (code("a"), code("b"), code("c"), code(CANCEL_KEY));

    // (1) exhaustive small bodies: every body of <= 2 top-level items over a small alphabet with
    //     one level of nesting, each activated once, in the plain form (expansion + playback)
    let atoms: Vec<B> = vec![B::Key("q"), B::Num(2), B::Chord(vec!["S-"], "w"), B::Unicode('x')];
    let mut small: Vec<Vec<B>> = vec![];
    for a in &atoms {
        small.push(vec![a.clone()]);
        small.push(vec![B::Group(vec![a.clone()])]);
        small.push(vec![B::Held(vec!["S-"], vec![a.clone()], false)]);
        small.push(vec![B::Held(vec!["C-", "S-"], vec![a.clone()], true)]);
        for b in &atoms {
            small.push(vec![a.clone(), b.clone()]);
            small.push(vec![B::Held(vec!["S-"], vec![a.clone(), b.clone()], false)]);
            small.push(vec![B::Held(vec!["S-"], vec![a.clone()], false), b.clone()]);
            small.push(vec![a.clone(), B::Group(vec![b.clone()])]);
            small.push(vec![B::Held(vec!["S-"], vec![B::Held(vec!["S-"], vec![a.clone()], false), b.clone()], false)]);
            small.push(vec![B::Held(vec!["C-"], vec![B::Group(vec![a.clone(), b.clone()])], false)]);
        }
    }
    small.push(vec![B::Held(vec!["S-"], vec![], false), B::Key("q")]);
    for (i, body) in small.iter().enumerate() {
        for form in 0..4 {
            if !thorough && form > 0 && i % 4 != form {
                continue;
            }
            let m = Mac { y: mk(0), form, rep: false, body: body.clone() };
            let mut h = vec![];
            tap(&mut h, mk(0), 3, 0);
            fin(&mut h, body_ticks(body));
            lines.push(mk_line("LAY", &[m], &h, &[], "small"));
        }
    }

    // (2) bodies the parser must refuse, and boundary delays
    let bad: Vec<Vec<B>> = vec![
        vec![],
        vec![B::ModsAlone(vec!["S-"])],
        vec![B::Key("q"), B::ModsAlone(vec!["C-", "S-"])],
        vec![B::ModsAlone(vec!["S-"]), B::Key("q")],
        vec![B::ModsAlone(vec!["S-"]), B::Num(5)],
        vec![B::Num(0)],
        vec![B::Key("q"), B::Num(65536)],
        vec![B::Held(vec!["O-"], vec![B::Key("q")], false)],
        vec![B::Bad("O-q")],
        vec![B::Other("XX")],
        vec![B::Key("q"), B::Other("()")],
        vec![B::Other("(multi q w)")],
        vec![B::Group(vec![B::Other("_")])],
        vec![B::Held(vec!["S-"], vec![B::Num(0)], false)],
        vec![B::Bad("S-§")],
        vec![B::Group(vec![B::ModsAlone(vec!["A-"])]), B::Group(vec![B::Key("q")])],
    ];
    for body in &bad {
        for (form, rep) in [(0, false), (1, true), (2, false)] {
            let m = Mac { y: mk(0), form, rep, body: body.clone() };
            let mut h = vec![];
            tap(&mut h, mk(0), 1, 10);
            lines.push(mk_line("LAY", &[m], &h, &[], "refused"));
        }
    }
    for d in [1u32, 2, 255, 256, 65535] {
        if d == 65535 && !thorough {
            continue;
        }
        let m = Mac { y: mk(0), form: 2, rep: false, body: vec![B::Key("q"), B::Num(d), B::Key("w")] };
        let mut h = vec![];
        tap(&mut h, mk(0), 1, 0);
        fin(&mut h, d + 5);
        lines.push(mk_line("LAY", &[m.clone()], &h, &[], "delays"));
        lines.push(mk_line("KAN", &[m], &h, &[], "delays"));
    }

    // (3) one random macro (all forms, repeat or not), activated once / several times, with plain
    //     keys typed meanwhile; bare layout and whole Kanata
    let n_single = if thorough { 30000 } else { 3000 };
    for i in 0..n_single {
        let n = if i % 10 == 0 { r.range(10, 20) } else { r.range(1, 7) } as usize;
        let p = if r.chance(1, 2) { pool(r.below(6) as usize) } else { shared_pool() };
        let mut body = gen_body(&mut r, &p, 0, n, if i % 7 == 0 { 300 } else { 25 });
        while count_items(&body) > 20 {
            body.pop();
        }
        if body.is_empty() {
            body.push(B::Key("q"));
        }
        let form = r.below(4) as usize;
        let rep = r.chance(1, 3);
        let m = Mac { y: mk(0), form, rep, body: body.clone() };
        let dur = body_ticks(&body);
        let tag = if r.chance(1, 2) { "KAN" } else { "LAY" };
        let mut h = vec![];
        match r.below(4) {
            0 => {
                tap(&mut h, mk(0), r.range(0, 3) as u32, 0);
                fin(&mut h, dur);
            }
            1 => {
                // several activations, spaced or overlapping
                for _ in 0..r.range(2, 4) {
                    let gap = if r.chance(1, 2) { dur + r.range(2, 9) as u32 } else { r.range(0, dur as u64) as u32 };
                    tap(&mut h, mk(0), r.range(0, 2) as u32, gap);
                }
                fin(&mut h, dur);
            }
            2 => {
                // held for a while (repeat forms play several times), plain keys typed meanwhile
                h.push(HEv::Press(0, mk(0)));
                for _ in 0..r.range(0, 4) {
                    h.push(HEv::Tick(r.range(1, dur as u64) as u32));
                    let k = *r.pick(&[ka, kb, kc]);
                    tap(&mut h, k, r.range(0, 3) as u32, 0);
                }
                h.push(HEv::Tick(r.range(0, 2 * dur as u64) as u32 + 1));
                h.push(HEv::Release(0, mk(0)));
                fin(&mut h, dur);
            }
            _ => {
                let gaps = [0, 1, 2, 3, dur / 2 + 1, dur + 2];
                let n_ev = r.range(2, 12) as usize;
                h = crate::cfggen::consistent_history(&mut r, &[mk(0), ka, kb, kc], n_ev, &gaps, 2 * dur + 40);
            }
        }
        lines.push(mk_line(tag, &[m], &h, &[], "single"));
    }

    // (4) cancellation at every step index: the cancel key (CancelSequences, bare layout), release
    //     of a release-cancel macro and a press during a cancel-on-press macro (whole Kanata)
    let n_cancel = if thorough { 400 } else { 50 };
    for i in 0..n_cancel {
        let p = pool(i);
        let n = r.range(2, 5) as usize;
        let body = gen_body(&mut r, &p, 1, n, 6);
        let dur = body_ticks(&body);
        for rep in [false, true] {
            for at in 0..=(dur + 2) {
                // CancelSequences pressed `at` ticks after the macro key
                let m = Mac { y: mk(0), form: 0, rep, body: body.clone() };
                let mut h = vec![HEv::Press(0, mk(0))];
                if at > 0 {
                    h.push(HEv::Tick(at));
                }
                h.push(HEv::Press(0, k0));
                h.push(HEv::Tick(2));
                h.push(HEv::Release(0, k0));
                h.push(HEv::Release(0, mk(0)));
                fin(&mut h, dur);
                lines.push(mk_line("LAY", &[m], &h, &[k0], "cancel-cs"));
                // release-cancel: key released after `at` ticks
                let m = Mac { y: mk(0), form: 1, rep, body: body.clone() };
                let mut h = vec![HEv::Press(0, mk(0))];
                if at > 0 {
                    h.push(HEv::Tick(at));
                }
                h.push(HEv::Release(0, mk(0)));
                fin(&mut h, dur);
                lines.push(mk_line("KAN", &[m], &h, &[], "cancel-release"));
                // cancel-on-press (and the combined form): another key pressed after `at` ticks
                let m = Mac { y: mk(0), form: if i % 2 == 0 { 2 } else { 3 }, rep, body: body.clone() };
                let mut h = vec![HEv::Press(0, mk(0))];
                if at > 0 {
                    h.push(HEv::Tick(at));
                }
                h.push(HEv::Press(0, ka));
                h.push(HEv::Tick(3));
                h.push(HEv::Release(0, ka));
                h.push(HEv::Tick(dur + 3));
                h.push(HEv::Release(0, mk(0)));
                fin(&mut h, dur);
                lines.push(mk_line("KAN", &[m], &h, &[], "cancel-press"));
            }
        }
    }

    // (5) 2-6 macros on their own keys and key pools, tapped `gap` ticks apart while the first ones
    //     are still playing: up to 4 run side by side; a 5th evicts the oldest (ring of 4)
    let n_conc = if thorough { 10000 } else { 1000 };
    for i in 0..n_conc {
        let k = 2 + (i % 5);
        let gap = *r.pick(&[1u32, 2, 3, 20]);
        let mut macs = vec![];
        for j in 0..k {
            let p = pool(j);
            let mut body = vec![];
            // a modifier held across a delay that outlasts the activation of all the others
            let inner_n = r.range(1, 3) as usize;
            let mut inner = gen_body(&mut r, &p, 2, inner_n, 3);
            inner.insert(r.below(inner.len() as u64 + 1) as usize, B::Num(gap * 7 + r.range(5, 40) as u32));
            body.push(B::Held(vec![p.mods[0]], inner, false));
            if r.chance(1, 3) {
                body.push(B::Key(p.letters[0]));
            }
            macs.push(Mac { y: mk(j), form: if r.chance(1, 4) { r.below(4) as usize } else { 0 }, rep: false, body });
        }
        let total: u32 = macs.iter().map(|m| body_ticks(&m.body)).sum();
        let mut h = vec![];
        for j in 0..k {
            tap(&mut h, mk(j), r.range(0, 1) as u32, gap);
            if r.chance(1, 6) {
                tap(&mut h, *r.pick(&[ka, kb]), 1, 0);
            }
        }
        fin(&mut h, total);
        let tag = if i % 3 == 0 { "KAN" } else { "LAY" };
        lines.push(mk_line(tag, &macs, &h, &[], &format!("conc{k}")));
    }
    // the witness of DESIGN §7 row 8
    {
        let mut macs = vec![];
        for (j, m) in ["S-", "C-", "A-", "M-", "RA-"].iter().enumerate() {
            macs.push(Mac { y: mk(j), form: 0, rep: false, body: vec![B::Held(vec![m], vec![B::Key("q"), B::Num(500), B::Key("w")], false)] });
        }
        let mut h = vec![];
        for j in 0..5 {
            tap(&mut h, mk(j), 5, 15);
        }
        h.push(HEv::Tick(3000));
        lines.push(mk_line("LAY", &macs, &h, &[], "conc5"));
        lines.push(mk_line("KAN", &macs, &h, &[], "conc5"));
    }

    // (6) random histories over several random macros sharing keys and modifiers, and plain keys
    let n_mix = if thorough { 30000 } else { 3000 };
    for i in 0..n_mix {
        let k = r.range(1, 3) as usize;
        let mut macs = vec![];
        let mut dur = 0;
        for j in 0..k {
            let n = r.range(1, 5) as usize;
            let p = if i % 2 == 0 { shared_pool() } else { pool(j) };
            let body = gen_body(&mut r, &p, 1, n, 12);
            dur += body_ticks(&body);
            macs.push(Mac { y: mk(j), form: r.below(4) as usize, rep: r.chance(1, 4), body });
        }
        let mut keys: Vec<u16> = (0..k).map(mk).collect();
        keys.extend([ka, kb]);
        let gaps = [0, 0, 1, 2, 5, dur / 2 + 1];
        let n_ev = r.range(2, 16) as usize;
        let h = crate::cfggen::consistent_history(&mut r, &keys, n_ev, &gaps, 3 * dur + 50);
        let tag = if i % 2 == 0 { "KAN" } else { "LAY" };
        lines.push(mk_line(tag, &macs, &h, &[], "mix"));
    }
    // (7) OS-level slice (`KOS` lines, generic kanata-level machinery): custom items inside macros
    lines.extend(gen_os(tier, seed));
    lines
}

// ------------------------------------------------------------------------------------ eval / expand

pub struct Tail {
    pub mac_ys: Vec<u16>,
    pub patch: Vec<u16>,
}

/// the `MAC … PATCH …` tokens after the history (only the coordinates are needed on this side)
pub fn parse_tail(line: &str) -> Tail {
    let t: Vec<&str> = line.split_whitespace().collect();
    let mut tail = Tail { mac_ys: vec![], patch: vec![] };
    let Some(mi) = t.iter().position(|x| *x == "MAC") else { return tail };
    let pi = t.iter().position(|x| *x == "PATCH").unwrap_or(t.len());
    // macro entries: `<y> <form> <rep> <items…>`; item tokens never contain the literal PATCH, and a
    // macro entry starts where the previous item list ends — walk the item grammar
    let mut i = mi + 2;
    let n: usize = t[mi + 1].parse().unwrap();
    fn skip_items(t: &[&str], mut i: usize) -> usize {
        let n: usize = t[i].parse().unwrap();
        i += 1;
        for _ in 0..n {
            i = skip_item(t, i);
        }
        i
    }
    fn skip_item(t: &[&str], i: usize) -> usize {
        match t[i] {
            "n" | "k" | "u" => i + 2,
            "o" | "b" => i + 1,
            "c" | "m" => i + 2 + t[i + 1].parse::<usize>().unwrap(),
            "l0" | "lo" => skip_items(t, i + 1),
            "lk" | "lu" => skip_items(t, i + 2),
            x => panic!("harness: bad item token {x}"),
        }
    }
    for _ in 0..n {
        tail.mac_ys.push(t[i].parse().unwrap());
        i = skip_items(&t, i + 3);
    }
    assert!(i == pi, "harness: macro tail does not end at PATCH");
    if pi < t.len() {
        let n: usize = t[pi + 1].parse().unwrap();
        for j in 0..n {
            tail.patch.push(t[pi + 2 + j].parse().unwrap());
        }
    }
    tail
}

fn patch_layers(layout: &mut kanata_parser::cfg::KanataLayout, patch: &[u16]) {
    if patch.is_empty() {
        return;
    }
    let l = layout.bm();
    let mut v = l.layers.to_vec();
    for y in patch {
        v[0][0][*y as usize] = Action::CancelSequences;
    }
    l.layers = Box::leak(v.into_boxed_slice());
}

fn fmt_events<'a>(evs: &[SequenceEvent<'a, &'a &'a [&'a CustomAction]>]) -> String {
    let mut v = vec![];
    for e in evs {
        v.push(match e {
            SequenceEvent::NoOp => "n".to_string(),
            SequenceEvent::Press(k) => format!("p{}", *k as u16),
            SequenceEvent::Release(k) => format!("r{}", *k as u16),
            SequenceEvent::Tap(k) => format!("t{}", *k as u16),
            SequenceEvent::Delay { duration } => format!("d{duration}"),
            SequenceEvent::Custom(c) => {
                let codes: Vec<String> = c.iter().map(|x| custom_code(x).to_string()).collect();
                format!("c{}", codes.join("+"))
            }
            SequenceEvent::Complete => "x".to_string(),
            _ => "?".to_string(),
        });
    }
    if v.is_empty() {
        "-".into()
    } else {
        v.join(",")
    }
}

fn fmt_customs(c: &[&CustomAction]) -> (usize, String) {
    let mut form = 0;
    let mut d = String::new();
    for x in c {
        match x {
            CustomAction::CancelMacroOnRelease => form |= 1,
            CustomAction::CancelMacroOnNextPress(n) => {
                form |= 2;
                d = format!(":D{n}");
            }
            _ => form |= 4,
        }
    }
    (form, d)
}

/// what the real parser made of the macro at (0,y): `X<y>:<form><rep>:<events>[:D<duration>]`
fn expansion<'a>(a: &Action<'a, &'a &'a [&'a CustomAction]>, y: u16) -> String {
    let seq = |a: &Action<'a, &'a &'a [&'a CustomAction]>| -> Option<(bool, String)> {
        match a {
            Action::Sequence { events } => Some((false, fmt_events(events))),
            Action::RepeatableSequence { events } => Some((true, fmt_events(events))),
            _ => None,
        }
    };
    if let Some((rep, ev)) = seq(a) {
        return format!("X{y}:0{}:{ev}", rep as u8);
    }
    if let Action::MultipleActions(acs) = a {
        if acs.len() == 2 {
            if let (Some((rep, ev)), Action::Custom(c)) = (seq(&acs[0]), &acs[1]) {
                let (form, d) = fmt_customs(c);
                return format!("X{y}:{form}{}:{ev}{d}", rep as u8);
            }
        }
    }
    format!("X{y}:not-a-macro")
}

fn expansions(c: &cfg::Cfg, tail: &Tail) -> String {
    let l = c.layout.b();
    tail.mac_ys.iter().map(|y| expansion(&l.layers[0][0][*y as usize], *y)).collect::<Vec<_>>().join(" ")
}

/// kinds of the custom action lists in serialisation order, for the Kanata-level model:
/// `CUST <n> (<k> (cr | cp <d> | o)*k)*n`
fn cust_table(ser: &Ser) -> String {
    let mut s = format!("CUST {}", ser.customs.len());
    for (ptr, len) in &ser.customs {
        // SAFETY: (ptr, len) were taken from a live `&'static [&'static CustomAction]` by `Ser::custom_id`
        let sl: &[&CustomAction] = unsafe { std::slice::from_raw_parts(*ptr as *const &CustomAction, *len) };
        s.push_str(&format!(" {len}"));
        for x in sl {
            match x {
                CustomAction::CancelMacroOnRelease => s.push_str(" cr"),
                CustomAction::CancelMacroOnNextPress(d) => s.push_str(&format!(" cp {d}")),
                _ => s.push_str(" o"),
            }
        }
    }
    s
}

pub fn expand(line: &str) -> String {
    if line.starts_with("KOS ") {
        return crate::kan::expand(line);
    }
    let p = lay::parse_line(line);
    let tail = parse_tail(line);
    match lay::parse_cfg(&p.cfg_text) {
        Err(_) => format!("{}X {} REJECT {}", p.tag, p.dbg as u8, p.hist_str),
        Ok(mut c) => {
            patch_layers(&mut c.layout, &tail.patch);
            let (s, ser) = lay::serialise_cfg(&c, &p.hist);
            format!("{}X {} {} {} {}", p.tag, p.dbg as u8, s, p.hist_str, cust_table(&ser))
        }
    }
}


/// (delay, tapped?, remaining events) of the active sequences, read from the digest hook, and how
/// many of them have not been stepped yet (`cur_event: None`, read from the derived `Debug`)
fn seq_snapshot<'a, const C: usize, const R: usize>(
    l: &kanata_keyberon::layout::Layout<'a, C, R, &'a &'a [&'a CustomAction]>,
) -> (Vec<(u32, bool, usize)>, usize) {
    if l.active_sequences.is_empty() {
        return (vec![], 0);
    }
    let d = l.verif_digest();
    let a = d.find(";as=[").expect("digest as=") + 5;
    let b = a + d[a..].find(']').unwrap();
    let v: Vec<(u32, bool, usize)> = d[a..b]
        .split(',')
        .filter(|x| !x.is_empty())
        .map(|x| {
            let f: Vec<&str> = x.split('/').collect();
            (f[0].parse().unwrap(), f[1] != "-", f[2].parse().unwrap())
        })
        .collect();
    let fresh = l.active_sequences.iter().filter(|q| format!("{q:?}").starts_with("SequenceState { cur_event: None")).count();
    (v, fresh)
}

/// sequences dropped from the ring of 4 by `push_back` during one tick: those that could not
/// finish in this tick plus those started in it, minus those present afterwards (a ring that is
/// not full afterwards was emptied by a cancellation instead)
fn evictions(before: &[(u32, bool, usize)], after: &[(u32, bool, usize)], fresh_after: usize) -> usize {
    let survivors = before.iter().filter(|(d, t, n)| !(*n <= 1 && *d == 0 && !*t)).count();
    if after.len() == 4 {
        (survivors + fresh_after).saturating_sub(after.len())
    } else {
        0
    }
}

fn fmt_keys(v: &[u16]) -> String {
    if v.is_empty() {
        "-".into()
    } else {
        v.iter().map(|k| k.to_string()).collect::<Vec<_>>().join(",")
    }
}

pub fn eval(line: &str) -> String {
    if line.starts_with("KOS ") {
        return crate::kan::eval_free(line);
    }
    let p = lay::parse_line(line);
    let tail = parse_tail(line);
    if p.tag == "KAN" {
        return eval_kanata(&p, &tail);
    }
    let mut c = match lay::parse_cfg(&p.cfg_text) {
        Err(_) => return "rej".into(),
        Ok(c) => c,
    };
    patch_layers(&mut c.layout, &tail.patch);
    let x = expansions(&c, &tail);
    let (_, mut ser) = lay::serialise_cfg(&c, &p.hist);
    let layout = c.layout.bm();
    let mut out: Vec<String> = vec![];
    let mut prev: Vec<u16> = vec![];
    let mut tick: u64 = 0;
    let mut ev = 0usize;
    for e in &p.hist {
        match e {
            HEv::Press(r, y) => layout.event(Event::Press(*r, *y)),
            HEv::Release(r, y) => layout.event(Event::Release(*r, *y)),
            HEv::Tick(n) => {
                for _ in 0..*n {
                    tick += 1;
                    let (before, _) = seq_snapshot(layout);
                    let ce = layout.tick();
                    let (after, fresh) = seq_snapshot(layout);
                    ev += evictions(&before, &after, fresh);
                    let keys: Vec<u16> = layout.keycodes().map(|k| k as u16).collect();
                    let cs = match ce {
                        CustomEvent::NoEvent => String::new(),
                        CustomEvent::Press(c) => format!(" cp{}", ser.custom_id(c)),
                        CustomEvent::Release(c) => format!(" cr{}", ser.custom_id(c)),
                    };
                    if keys != prev || !cs.is_empty() {
                        out.push(format!("@{tick} K{}{}", fmt_keys(&keys), cs));
                        prev = keys;
                    }
                    if p.dbg {
                        out.push(format!("#{tick} {}", layout.verif_digest()));
                    }
                }
            }
        }
    }
    out.push(format!("D {} EV{ev}", layout.verif_digest()));
    out.push(x);
    out.join(" ")
}

/// whole Kanata: `handle_input_event` / `tick_ms(1)`; `K` is `prev_keys` (what was handed to the
/// OS diffing on that tick), the digest is the layout's after the tick plus the cancel countdown
fn eval_kanata(p: &lay::Parsed, tail: &Tail) -> String {
    let mut k = match Kanata::new_from_str(&p.cfg_text, Default::default()) {
        Ok(k) => k,
        Err(_) => return "rej".into(),
    };
    patch_layers(&mut k.layout, &tail.patch);
    let x = {
        let l = k.layout.b();
        tail.mac_ys.iter().map(|y| expansion(&l.layers[0][0][*y as usize], *y)).collect::<Vec<_>>().join(" ")
    };
    let mut out: Vec<String> = vec![];
    let mut prev: Vec<u16> = vec![];
    let mut tick: u64 = 0;
    let mut ev = 0usize;
    let digest = |k: &mut Kanata| format!("{};mc={}", k.layout.bm().verif_digest(), k.macro_on_press_cancel_duration);
    for e in &p.hist {
        match e {
            HEv::Press(_, y) => k
                .handle_input_event(&KeyEvent { code: OsCode::from_u16(*y).expect("oscode"), value: KeyValue::Press })
                .expect("input event"),
            HEv::Release(_, y) => k
                .handle_input_event(&KeyEvent { code: OsCode::from_u16(*y).expect("oscode"), value: KeyValue::Release })
                .expect("input event"),
            HEv::Tick(n) => {
                for _ in 0..*n {
                    tick += 1;
                    let (before, _) = seq_snapshot(k.layout.b());
                    k.tick_ms(1, &None).expect("tick");
                    let (after, fresh) = seq_snapshot(k.layout.b());
                    ev += evictions(&before, &after, fresh);
                    let keys: Vec<u16> = k.prev_keys.iter().map(|kc| *kc as u16).collect();
                    if keys != prev {
                        out.push(format!("@{tick} K{}", fmt_keys(&keys)));
                        prev = keys;
                    }
                    if p.dbg {
                        out.push(format!("#{tick} {}", digest(&mut k)));
                    }
                }
            }
        }
    }
    out.push(format!("D {} EV{ev}", digest(&mut k)));
    out.push(x);
    out.join(" ")
}

// ------------------------------------------------------------------------------------ OS-level slice
//
// `KOS <dbg> <hex(cfg text)> HIST <n> (p 0 y | r 0 y | t n)*`: generic kanata-level lines
// (`kan::mk_kline`), evaluated by `kan::eval_free` / `kan::expand` and, on the model side, by
// `Kan.run "KOS"`: the whole OS event trace (keys, mouse buttons, wheel, unicode) of macros whose
// bodies contain custom items is compared with the kanata-level model, and judged without a model
// by `runner/props.py: _c08_os_oracle`, which reads these comment lines of the configuration text:
//   ;; family <name>
//   ;; settle <n>              quiet ticks after which everything a macro did must be over
//   ;; expect-os <y> <tokens>  the OS events an uninterrupted single activation of the macro on key
//                              <y> must produce, in order: its spelled list (d<code> u<code> bd<n>
//                              bu<n> U<codepoint> s<dir>,<distance>)
//   ;; tight-custom <y>        the body of the macro on <y> has a custom item that is not followed
//                              by a delay of >= 3 ms (computed from the body alone)
use crate::kan::{mk_kline, KEv};

#[derive(Clone, Debug)]
pub enum O {
    Key(&'static str),
    Delay(u32),
    /// output chord atom `S-x`
    Chord(&'static str, &'static str),
    /// `S-(…)`
    Held(&'static str, Vec<O>),
    /// mlft mrgt mmid
    Btn(&'static str),
    /// mltp mrtp mmtp
    BtnTap(&'static str),
    Unmod(&'static str),
    Unshift(&'static str),
    Uni(char),
    /// `(mwheel-<dir> 50 120)`
    Wheel(&'static str),
    /// `(on-press tap-vkey v<n>)` / `(on-release tap-vkey v<n>)`
    VTap(u8, bool),
}

const OS_VKEYS: [&str; 2] = ["9", "8"];
const OS_MAC_KEYS: [&str; 3] = ["1", "2", "3"];
const OS_LETTERS: [[&str; 4]; 3] = [["q", "w", "e", "r"], ["t", "y", "u", "i"], ["o", "p", "j", "k"]];
const OS_MODS: [&str; 4] = ["S-", "C-", "A-", "RS-"];
const OS_BKEY_ACTIONS: [&str; 7] =
    ["mmid", "mlft", "(unmod z)", "(unicode q)", "(on-press tap-vkey v2)", "(mwheel-down 50 120)", "(unshift z)"];

fn os_is_custom(o: &O) -> bool {
    !matches!(o, O::Key(_) | O::Delay(_) | O::Chord(..) | O::Held(..))
}

fn os_item_text(o: &O) -> String {
    match o {
        O::Key(k) => k.to_string(),
        O::Delay(n) => n.to_string(),
        O::Chord(m, k) => format!("{m}{k}"),
        O::Held(m, items) => format!("{m}({})", os_body_text(items)),
        O::Btn(b) | O::BtnTap(b) => b.to_string(),
        O::Unmod(k) => format!("(unmod {k})"),
        O::Unshift(k) => format!("(unshift {k})"),
        O::Uni(c) => format!("(unicode {c})"),
        O::Wheel(d) => format!("(mwheel-{d} 50 120)"),
        O::VTap(v, false) => format!("(on-press tap-vkey v{v})"),
        O::VTap(v, true) => format!("(on-release tap-vkey v{v})"),
    }
}

pub fn os_body_text(b: &[O]) -> String {
    b.iter().map(os_item_text).collect::<Vec<_>>().join(" ")
}

/// the body as the flat list of sequence steps: key press / key release / delay / custom item
#[derive(Clone, Debug, PartialEq)]
enum Fe {
    P,
    R,
    D(u32),
    C,
}

fn os_flatten(b: &[O], out: &mut Vec<Fe>) {
    for o in b {
        match o {
            O::Key(_) => out.extend([Fe::P, Fe::R]),
            O::Delay(n) => out.push(Fe::D(*n)),
            O::Chord(..) => out.extend([Fe::P, Fe::P, Fe::R, Fe::R]),
            O::Held(_, items) => {
                out.push(Fe::P);
                os_flatten(items, out);
                out.push(Fe::R);
            }
            _ => out.push(Fe::C),
        }
    }
}

/// a custom item that is neither the last step nor followed by a delay of at least 3 ms
fn os_tight(b: &[O]) -> bool {
    let mut f = vec![];
    os_flatten(b, &mut f);
    (0..f.len()).any(|i| f[i] == Fe::C && i + 1 < f.len() && !matches!(f[i + 1], Fe::D(n) if n >= 3))
}

fn os_ticks(b: &[O]) -> u32 {
    b.iter()
        .map(|o| match o {
            O::Key(_) => 2,
            O::Delay(n) => *n,
            O::Chord(..) => 4,
            O::Held(_, items) => 2 + os_ticks(items),
            _ => 1,
        })
        .sum()
}

fn os_btn_num(name: &str) -> u32 {
    match name {
        "mlft" | "mltp" => 0,
        "mrgt" | "mrtp" => 1,
        "mmid" | "mmtp" => 2,
        _ => panic!("harness: mouse atom {name}"),
    }
}

/// the spelled list as OS events; `false` (nothing is claimed) if the body holds an unmod/unshift
/// item under a held modifier group (what the OS sees then includes the lifting of the group's
/// modifiers) or presses a modifier it already holds (the OS cannot see a key go down twice)
fn os_expect(b: &[O], held: &mut Vec<&'static str>, out: &mut Vec<String>) -> bool {
    let mut ok = true;
    for o in b {
        match o {
            O::Key(k) => out.extend([format!("d{}", code(k)), format!("u{}", code(k))]),
            O::Delay(_) => {}
            O::Chord(m, k) => {
                if held.contains(m) {
                    ok = false;
                }
                let (mc, kc) = (mod_code(m), code(k));
                out.extend([format!("d{mc}"), format!("d{kc}"), format!("u{kc}"), format!("u{mc}")]);
            }
            O::Held(m, items) => {
                if held.contains(m) {
                    ok = false;
                }
                out.push(format!("d{}", mod_code(m)));
                held.push(*m);
                ok &= os_expect(items, held, out);
                held.pop();
                out.push(format!("u{}", mod_code(m)));
            }
            O::Btn(x) | O::BtnTap(x) => out.extend([format!("bd{}", os_btn_num(x)), format!("bu{}", os_btn_num(x))]),
            O::Unmod(k) | O::Unshift(k) => {
                if !held.is_empty() {
                    ok = false;
                }
                out.extend([format!("d{}", code(k)), format!("u{}", code(k))]);
            }
            O::Uni(c) => out.push(format!("U{}", *c as u32)),
            O::Wheel(d) => out.push(format!("s{},120", ["up", "down", "left", "right"].iter().position(|x| x == d).unwrap())),
            O::VTap(v, _) => {
                let c = code(OS_VKEYS[*v as usize - 1]);
                out.extend([format!("d{c}"), format!("u{c}")]);
            }
        }
    }
    ok
}

fn os_custom_atom(r: &mut Rng, letters: &[&'static str]) -> O {
    match r.below(10) {
        0 | 1 => O::Btn(*r.pick(&["mlft", "mrgt", "mmid"])),
        2 => O::BtnTap(*r.pick(&["mltp", "mrtp", "mmtp"])),
        3 | 4 => O::Unmod(*r.pick(letters)),
        5 => O::Unshift(*r.pick(letters)),
        6 => O::Uni(*r.pick(&['x', 'é', 'λ'])),
        7 => O::Wheel(*r.pick(&["up", "down", "left", "right"])),
        _ => O::VTap(r.range(1, 2) as u8, r.chance(1, 4)),
    }
}

/// `spaced`: every custom item is followed by a 3 ms delay
fn os_gen_body(r: &mut Rng, letters: &[&'static str], n: usize, depth: u32, spaced: bool) -> Vec<O> {
    let mut v = vec![];
    for _ in 0..n {
        let o = match r.below(20) {
            0..=3 => O::Key(*r.pick(letters)),
            4 => O::Delay(r.range(1, 4) as u32),
            5 => O::Chord(*r.pick(&OS_MODS), *r.pick(letters)),
            6 | 7 if depth < 2 => {
                let k = r.range(1, 3) as usize;
                O::Held(*r.pick(&OS_MODS), os_gen_body(r, letters, k, depth + 1, spaced))
            }
            8 => O::Delay(r.range(5, 12) as u32),
            9 => O::Key(*r.pick(letters)),
            _ => os_custom_atom(r, letters),
        };
        let c = os_is_custom(&o);
        v.push(o);
        if c && spaced {
            v.push(O::Delay(3));
        }
    }
    v
}

fn os_has_custom(b: &[O]) -> bool {
    b.iter().any(|o| match o {
        O::Held(_, i) => os_has_custom(i),
        o => os_is_custom(o),
    })
}

fn os_body(r: &mut Rng, letters: &[&'static str], n: usize, spaced: bool) -> Vec<O> {
    let mut b = os_gen_body(r, letters, n, 0, spaced);
    if !os_has_custom(&b) {
        let at = r.below(b.len() as u64 + 1) as usize;
        if spaced {
            b.insert(at, O::Delay(3));
        }
        b.insert(at, os_custom_atom(r, letters));
    }
    b
}

#[derive(Clone, Debug)]
pub struct OMac {
    /// index into `FORMS` / `FORMS_REPEAT`
    pub form: usize,
    pub rep: bool,
    pub body: Vec<O>,
}

impl OMac {
    fn text(&self) -> String {
        let name = if self.rep { FORMS_REPEAT[self.form] } else { FORMS[self.form] };
        format!("({name} {})", os_body_text(&self.body))
    }
}

/// macros on keys 1 2 3, a plain key `a`, a key `b` with a custom action of its own, a plain key `c`
fn os_cfg(fam: &str, macs: &[OMac], bkey: &str) -> String {
    let dur: u32 = macs.iter().map(|m| os_ticks(&m.body) + 4).sum();
    let mut s = format!(";; family {fam}\n;; settle {}\n", 2 * dur + 30);
    for (j, m) in macs.iter().enumerate() {
        let y = code(OS_MAC_KEYS[j]);
        // plain `macro` and `macro-cancel-on-press` play their list in full unless interrupted
        if !m.rep && (m.form == 0 || m.form == 2) {
            let mut toks = vec![];
            if os_expect(&m.body, &mut vec![], &mut toks) {
                s.push_str(&format!(";; expect-os {y} {}\n", toks.join(" ")));
            }
        }
        if os_tight(&m.body) {
            s.push_str(&format!(";; tight-custom {y}\n"));
        }
    }
    s.push_str(&format!("(defvirtualkeys v1 {} v2 {})\n(defsrc", OS_VKEYS[0], OS_VKEYS[1]));
    for j in 0..macs.len() {
        s.push_str(&format!(" {}", OS_MAC_KEYS[j]));
    }
    s.push_str(" a b c)\n(deflayer l0");
    for m in macs {
        s.push_str(&format!(" {}", m.text()));
    }
    s.push_str(&format!(" a {bkey} c)\n"));
    s
}

fn os_settle(macs: &[OMac]) -> u32 {
    let dur: u32 = macs.iter().map(|m| os_ticks(&m.body) + 4).sum();
    2 * dur + 30
}

fn kp(y: u16) -> KEv {
    KEv::L(HEv::Press(0, y))
}
fn kr(y: u16) -> KEv {
    KEv::L(HEv::Release(0, y))
}
fn kt(h: &mut Vec<KEv>, n: u32) {
    if n > 0 {
        h.push(KEv::L(HEv::Tick(n)));
    }
}

pub fn gen_os(tier: &str, seed: u64) -> Vec<String> {
    let mut r = Rng::new(seed ^ 0xC08_05);
    let thorough = tier == "thorough";
    let scale = if thorough { 8 } else { 1 };
    let mut lines = vec![];
    let mk = |j: usize| code(OS_MAC_KEYS[j]);
    let (ka, kb) = (code("a"), code("b"));
    let line = |fam: &str, macs: &[OMac], bkey: &str, h: &[KEv]| mk_kline("KOS", false, &os_cfg(fam, macs, bkey), h);
    let tapped = |macs: &[OMac], hold: u32| {
        let mut h = vec![kp(code(OS_MAC_KEYS[0]))];
        kt(&mut h, hold);
        h.push(kr(code(OS_MAC_KEYS[0])));
        kt(&mut h, os_settle(macs) + 5);
        h
    };

    // (a) exhaustive small bodies in the plain form, one activation: every atom alone, every pair,
    //     under a held modifier, and triples of custom items followed by a key
    let atoms: Vec<O> = vec![
        O::Key("q"), O::Btn("mlft"), O::BtnTap("mrtp"), O::Unmod("w"), O::Unshift("e"), O::Uni('é'), O::Wheel("up"), O::Wheel("left"),
        O::VTap(1, false), O::VTap(2, true), O::Delay(3),
    ];
    let mut small: Vec<Vec<O>> = vec![];
    for a in &atoms {
        small.push(vec![a.clone()]);
        small.push(vec![O::Held("S-", vec![a.clone()])]);
        small.push(vec![O::Held("C-", vec![a.clone()]), O::Key("r")]);
        for b in &atoms {
            small.push(vec![a.clone(), b.clone()]);
        }
    }
    let cust3 = [O::Btn("mlft"), O::Uni('λ'), O::VTap(1, false)];
    for a in &cust3 {
        for b in &cust3 {
            for c in &cust3 {
                small.push(vec![a.clone(), b.clone(), c.clone(), O::Key("q")]);
            }
        }
    }
    for body in &small {
        let macs = [OMac { form: 0, rep: false, body: body.clone() }];
        lines.push(line("os-small", &macs, "mmid", &tapped(&macs, 2)));
    }

    // (b) one random macro, all eight list actions, one activation (tapped / held a little)
    for i in 0..400 * scale {
        let n = r.range(1, 6) as usize;
        let spaced = i % 3 != 0;
        let body = os_body(&mut r, &OS_LETTERS[0], n, spaced);
        let (form, rep) = if i % 2 == 0 { (0, false) } else { (r.below(4) as usize, r.chance(1, 2)) };
        let macs = [OMac { form, rep, body }];
        lines.push(line("os-single", &macs, "mmid", &tapped(&macs, r.range(0, 3) as u32)));
    }

    // (c) the repeating forms held over several runs
    for _ in 0..150 * scale {
        let n = r.range(1, 4) as usize;
        let spaced = r.chance(1, 2);
        let body = os_body(&mut r, &OS_LETTERS[0], n, spaced);
        let dur = os_ticks(&body) + 1;
        let macs = [OMac { form: r.below(4) as usize, rep: true, body }];
        let hold = r.range(1, 3) as u32 * dur + r.range(0, dur as u64) as u32;
        lines.push(line("os-repeat", &macs, "mmid", &tapped(&macs, hold)));
    }

    // (d) cancellation at every tick offset: release of a release-cancel macro, another key pressed
    //     during a cancel-on-press macro
    for i in 0..(if thorough { 60 } else { 10 }) {
        let n = r.range(2, 4) as usize;
        let body = os_body(&mut r, &OS_LETTERS[0], n, i % 2 == 0);
        let dur = os_ticks(&body);
        for rep in [false, true] {
            for at in 0..=(dur + 3) {
                let macs = [OMac { form: if i % 3 == 0 { 3 } else { 1 }, rep, body: body.clone() }];
                lines.push(line("os-cancel-release", &macs, "mmid", &tapped(&macs, at)));
                let macs = [OMac { form: if i % 3 == 1 { 3 } else { 2 }, rep, body: body.clone() }];
                let mut h = vec![kp(mk(0))];
                kt(&mut h, 1);
                h.push(kr(mk(0)));
                kt(&mut h, at);
                h.push(kp(ka));
                kt(&mut h, 3);
                h.push(kr(ka));
                kt(&mut h, os_settle(&macs) + 5);
                lines.push(line("os-cancel-press", &macs, "mmid", &h));
            }
        }
    }

    // ---- t5 begin: (d2) two cancel-on-press macros started together (one key, `multi`), a long and a
    //     short one in both orders; another key pressed while the long one is still in progress (after
    //     the short one is over, and before).  The trigger "is enabled while the macro is in
    //     progress" (docs/config.adoc, macro-cancel-on-press): the press must cancel the long macro
    //     whichever of the two set the window last (judged by clause (3) of the free oracle).
    for (long_d, short_d) in [(300u32, 10u32), (120, 1), (60, 25)] {
        for long_first in [true, false] {
            for form in [FORMS[2], FORMS_REPEAT[2]] {
                let long_m = format!("({form} q {long_d} w)");
                let short_m = format!("({form} t {short_d} y)");
                let (m0, m1) = if long_first { (&long_m, &short_m) } else { (&short_m, &long_m) };
                let settle = 2 * (long_d + short_d + 12) + 30;
                let cfg = format!(
                    ";; family os-cancel-press\n;; settle {settle}\n(defsrc 1 a b c)\n(deflayer l0 (multi {m0} {m1}) a mmid c)\n"
                );
                for at in [1u32, 3, short_d + 2, short_d + 6, long_d / 3, long_d / 2, long_d - 5, long_d - 1] {
                    let mut h = vec![kp(mk(0))];
                    kt(&mut h, 1);
                    h.push(kr(mk(0)));
                    kt(&mut h, at);
                    h.push(kp(ka));
                    kt(&mut h, 3);
                    h.push(kr(ka));
                    kt(&mut h, settle + 5);
                    lines.push(mk_kline("KOS", false, &cfg, &h));
                }
            }
        }
    }
    // ---- t5 end
    // ---- t5 begin: (d3) a defseq sequence typed (leader, then the keys - plain, chorded with the
    //     left or the right modifier key) or completed by the macro's own keys while a macro holds a
    //     modifier group over a delay, in all three sequence input modes.  Completing a sequence
    //     drops the typed keys' states; what the macro holds must stay: the OS events projected onto
    //     the macro's own keys are the spelled list (`;; expect-os-proj <macro key> <k,k,..> <events>`;
    //     the sequence's own outputs - typed keys, backspaces, the virtual key's z - are outside
    //     that projection).  (seeded change C08g)
    {
        let kc = |n: &str| code(n);
        let modes = ["visible-backspaced", "hidden-suppressed", "hidden-delay-type"];
        // (macro prefix, its OS code, the left / right physical key that types the same modifier)
        let mods = [("S-", 42u16, "lsft", "rsft"), ("C-", 29, "lctl", "rctl"), ("A-", 56, "lalt", "ralt")];
        for (mi, mode) in modes.iter().enumerate() {
            for (xi, (pfx, mcode, lkey, rkey)) in mods.iter().enumerate() {
                for delay in [120u32, 500] {
                    if delay == 500 && !thorough && (mi + xi) % 3 != 0 {
                        continue;
                    }
                    let settle = 2 * (delay + 20) + 30;
                    // -- typed during the delay
                    for (si, seq) in [format!("{pfx}(a b)"), format!("{pfx}a {pfx}b"), "a b".to_string(), format!("a {pfx}b")].iter().enumerate() {
                        for physical in [*rkey, *lkey] {
                            let cfg = format!(
                                ";; family os-seq-macro\n;; settle {settle}\n;; expect-os-proj 2 {mcode},45,21 d{mcode} d45 u45 d21 u21 u{mcode}\n(defcfg sequence-input-mode {mode})\n(defsrc 1 0 {lkey} {rkey} a b c)\n(deflayer l0 (macro {pfx}(x {delay} y)) sldr {lkey} {rkey} a b c)\n(defvirtualkeys s1 z)\n(defseq s1 ({seq}))\n"
                            );
                            for start in [10u32, 40] {
                                let km = kc(physical);
                                let mut h = vec![kp(mk(0))];
                                kt(&mut h, 2);
                                h.push(kr(mk(0)));
                                kt(&mut h, start);
                                h.push(kp(kc("0")));
                                kt(&mut h, 2);
                                h.push(kr(kc("0")));
                                kt(&mut h, 6);
                                let chord_a = si == 0 || si == 1;
                                let chord_b = si != 2;
                                if chord_a {
                                    h.push(kp(km));
                                    kt(&mut h, 5);
                                }
                                h.push(kp(kc("a")));
                                kt(&mut h, 5);
                                if !chord_a && chord_b {
                                    h.push(kr(kc("a")));
                                    kt(&mut h, 3);
                                    h.push(kp(km));
                                    kt(&mut h, 5);
                                }
                                h.push(kp(kc("b")));
                                kt(&mut h, 5);
                                if chord_a || !chord_b {
                                    h.push(kr(kc("a")));
                                }
                                h.push(kr(kc("b")));
                                if chord_a || chord_b {
                                    kt(&mut h, 2);
                                    h.push(kr(km));
                                }
                                kt(&mut h, settle + 1100);
                                lines.push(mk_kline("KOS", false, &cfg, &h));
                            }
                        }
                    }
                    // -- completed by the macro itself: leader first, then the macro key; the macro's
                    //    own `<mod>-a` is the sequence, its group still has `y` to type.  Only in the
                    //    visible mode: the hidden modes swallow what the macro types into the pending
                    //    sequence - its modifier press included - by design (the sequence consumes it)
                    if mi != 0 {
                        continue;
                    }
                    let cfg = format!(
                        ";; family os-seq-macro\n;; settle {settle}\n;; expect-os-proj 2 {mcode},21 d{mcode} d21 u21 u{mcode}\n(defcfg sequence-input-mode {mode})\n(defsrc 1 0 a b c)\n(deflayer l0 (macro {pfx}(a {delay} y)) sldr a b c)\n(defvirtualkeys s1 z)\n(defseq s1 ({pfx}a))\n"
                    );
                    let mut h = vec![kp(kc("0"))];
                    kt(&mut h, 2);
                    h.push(kr(kc("0")));
                    kt(&mut h, 10);
                    h.push(kp(mk(0)));
                    kt(&mut h, 2);
                    h.push(kr(mk(0)));
                    kt(&mut h, settle + 1100);
                    lines.push(mk_kline("KOS", false, &cfg, &h));
                }
            }
        }
    }
    // ---- t5 end
    // (e) two macros overlapping at every offset, and random histories over 2-3 macros, the plain
    //     key and the custom key
    for i in 0..(if thorough { 30 } else { 6 }) {
        let (n0, n1) = (r.range(1, 3) as usize, r.range(1, 3) as usize);
        let b0 = os_body(&mut r, &OS_LETTERS[0], n0, i % 2 == 0);
        let b1 = os_body(&mut r, &OS_LETTERS[1], n1, i % 2 == 0);
        let dur = os_ticks(&b0);
        let macs = [OMac { form: 0, rep: false, body: b0 }, OMac { form: if i % 3 == 0 { 1 } else { 0 }, rep: i % 3 == 2, body: b1 }];
        for g in 0..=(dur + 2) {
            let mut h = vec![kp(mk(0))];
            kt(&mut h, g);
            h.push(kp(mk(1)));
            kt(&mut h, 1);
            h.push(kr(mk(0)));
            kt(&mut h, 2);
            h.push(kr(mk(1)));
            kt(&mut h, os_settle(&macs) + 5);
            lines.push(line("os-overlap", &macs, "mmid", &h));
        }
    }
    for i in 0..200 * scale {
        let k = r.range(2, 3) as usize;
        let mut macs = vec![];
        for j in 0..k {
            let n = r.range(1, 4) as usize;
            let body = os_body(&mut r, &OS_LETTERS[j], n, i % 2 == 0);
            macs.push(OMac { form: r.below(4) as usize, rep: r.chance(1, 4), body });
        }
        let mut keys: Vec<u16> = (0..k).map(mk).collect();
        keys.extend([ka, kb]);
        let n_ev = r.range(2, 8) as usize;
        let hh = crate::cfggen::consistent_history(&mut r, &keys, n_ev, &[0, 1, 1, 2, 3, 5], os_settle(&macs) + 5);
        let h: Vec<KEv> = hh.into_iter().map(KEv::L).collect();
        lines.push(line("os-mix", &macs, *r.pick(&OS_BKEY_ACTIONS), &h));
    }

    // (f) a key with a custom action of its own pressed / released at every tick offset of the
    //     macro, so that two custom events fall into one tick
    for i in 0..(if thorough { 56 } else { 8 }) {
        let n = r.range(1, 3) as usize;
        let body = os_body(&mut r, &OS_LETTERS[0], n, i % 2 == 1);
        let dur = os_ticks(&body);
        let bkey = OS_BKEY_ACTIONS[i % OS_BKEY_ACTIONS.len()];
        let macs = [OMac { form: if i % 4 == 3 { 2 } else { 0 }, rep: false, body }];
        let tail = os_settle(&macs) + 5;
        for at in 0..=(dur + 3) {
            // pressed `at` ticks into the macro, released a tick later
            let mut h = vec![kp(mk(0))];
            kt(&mut h, 1);
            h.push(kr(mk(0)));
            kt(&mut h, at);
            h.push(kp(kb));
            kt(&mut h, 1);
            h.push(kr(kb));
            kt(&mut h, tail);
            lines.push(line("os-coincide", &macs, bkey, &h));
            // held from before, released `at` ticks into the macro
            let mut h = vec![kp(kb)];
            kt(&mut h, 2);
            h.push(kp(mk(0)));
            kt(&mut h, 1);
            h.push(kr(mk(0)));
            kt(&mut h, at);
            h.push(kr(kb));
            kt(&mut h, tail);
            lines.push(line("os-coincide", &macs, bkey, &h));
            // press and release queued together
            let mut h = vec![kp(mk(0))];
            kt(&mut h, 1);
            h.push(kr(mk(0)));
            kt(&mut h, at);
            h.push(kp(kb));
            h.push(kr(kb));
            kt(&mut h, tail);
            lines.push(line("os-coincide", &macs, bkey, &h));
        }
    }
    lines
}
