//! C16: configuration abstractions are transparent.
//!
//! `gen` builds configurations over the action grammar as trees, applies semantically neutral
//! rewrites (defalias / defvar / deftemplate+template-expand incl. the if-* family / include /
//! platform / deflayer -> deflayermap, randomly composed) at applicable sites, and emits one case
//! line holding the original and the rewritten configuration as token trees, the include files,
//! the key-name table and an input history.  `eval` prints the configuration text from the trees,
//! runs the REAL parser pipeline, variable table and accessors on both, parses both with
//! `cfg::new_from_str`, compares everything observable, then drives both through
//! `Kanata::handle_input_event` / `tick_ms` on the same history and compares the OS output.
use crate::rng::Rng;
use kanata_parser::cfg;
use kanata_parser::cfg::sexpr::SExpr;
use kanata_parser::keys::str_to_oscode;
use kanata_state_machine::oskbd::{KeyEvent, KeyValue};
use kanata_state_machine::Kanata;
use rustc_hash::FxHashMap;

// ------------------------------------------------------------------------------------ trees

#[derive(Clone, Debug, PartialEq, Eq, Hash)]
pub enum T {
    A(String),
    L(Vec<T>),
}

fn a(s: &str) -> T {
    T::A(s.to_string())
}
fn l(v: Vec<T>) -> T {
    T::L(v)
}
fn num(n: u64) -> T {
    T::A(n.to_string())
}

impl T {
    fn list(&self) -> Option<&Vec<T>> {
        match self {
            T::L(v) => Some(v),
            _ => None,
        }
    }
    fn atom(&self) -> Option<&str> {
        match self {
            T::A(s) => Some(s),
            _ => None,
        }
    }
    fn head(&self) -> Option<&str> {
        self.list().and_then(|v| v.first()).and_then(|t| t.atom())
    }
    fn text(&self, out: &mut String) {
        match self {
            T::A(s) => out.push_str(s),
            T::L(v) => {
                out.push('(');
                for (i, t) in v.iter().enumerate() {
                    if i > 0 {
                        out.push(' ');
                    }
                    t.text(out);
                }
                out.push(')');
            }
        }
    }
    fn to_text(&self) -> String {
        let mut s = String::new();
        self.text(&mut s);
        s
    }
    fn contains_atom(&self, p: &dyn Fn(&str) -> bool) -> bool {
        match self {
            T::A(s) => p(s),
            T::L(v) => v.iter().any(|t| t.contains_atom(p)),
        }
    }
}

/// reader for the fragments written in this file (atoms, lists, "quoted strings")
fn rd(s: &str) -> T {
    fn go(b: &[u8], i: &mut usize) -> Vec<T> {
        let mut out = vec![];
        while *i < b.len() {
            let c = b[*i];
            if c.is_ascii_whitespace() {
                *i += 1;
            } else if c == b'(' {
                *i += 1;
                out.push(T::L(go(b, i)));
            } else if c == b')' {
                *i += 1;
                return out;
            } else if c == b'"' {
                let st = *i;
                *i += 1;
                while b[*i] != b'"' {
                    *i += 1;
                }
                *i += 1;
                out.push(T::A(String::from_utf8(b[st..*i].to_vec()).unwrap()));
            } else {
                let st = *i;
                while *i < b.len() && !b[*i].is_ascii_whitespace() && b[*i] != b'(' && b[*i] != b')' && b[*i] != b'"' {
                    *i += 1;
                }
                out.push(T::A(String::from_utf8(b[st..*i].to_vec()).unwrap()));
            }
        }
        out
    }
    let mut i = 0;
    let mut v = go(s.as_bytes(), &mut i);
    assert!(v.len() == 1, "rd: {s}");
    v.pop().unwrap()
}

fn cfg_text(items: &[T]) -> String {
    items.iter().map(|t| t.to_text()).collect::<Vec<_>>().join("\n")
}

// ------------------------------------------------------------------------------------ tokens

fn enc(s: &str) -> String {
    let mut o = String::new();
    for b in s.bytes() {
        if b <= 32 || b >= 127 || b == b'%' {
            o.push_str(&format!("%{:02x}", b));
        } else {
            o.push(b as char);
        }
    }
    o
}

fn dec(s: &str) -> String {
    let b = s.as_bytes();
    let mut o = vec![];
    let mut i = 0;
    while i < b.len() {
        if b[i] == b'%' && i + 3 <= b.len() {
            let h = u8::from_str_radix(&s[i + 1..i + 3], 16).unwrap_or(b'?');
            o.push(h);
            i += 3;
        } else {
            o.push(b[i]);
            i += 1;
        }
    }
    String::from_utf8_lossy(&o).to_string()
}

fn tok_tree(t: &T, out: &mut Vec<String>) {
    match t {
        T::A(s) => out.push(format!(":{}", enc(s))),
        T::L(v) => {
            out.push("(".into());
            for x in v {
                tok_tree(x, out);
            }
            out.push(")".into());
        }
    }
}

fn tok_forest(items: &[T], out: &mut Vec<String>) {
    out.push("(".into());
    for x in items {
        tok_tree(x, out);
    }
    out.push(")".into());
}

struct Toks<'a> {
    v: Vec<&'a str>,
    i: usize,
}
impl<'a> Toks<'a> {
    fn next(&mut self) -> &'a str {
        let t = self.v.get(self.i).copied().unwrap_or("");
        self.i += 1;
        t
    }
    fn forest_tail(&mut self) -> Vec<T> {
        let mut out = vec![];
        loop {
            let t = self.next();
            if t == ")" || t.is_empty() {
                return out;
            } else if t == "(" {
                out.push(T::L(self.forest_tail()));
            } else {
                out.push(T::A(dec(&t[1..])));
            }
        }
    }
    fn forest(&mut self) -> Vec<T> {
        let t = self.next();
        assert!(t == "(");
        self.forest_tail()
    }
}

// ------------------------------------------------------------------------------------ universe

/// key names the generator may write anywhere; the table name -> code goes into every case line
const KEYS: [&str; 22] = [
    "a", "b", "c", "d", "e", "f", "g", "h", "1", "2", "3", "lsft", "rsft", "lctl", "lalt", "ralt", "spc", "ret", "tab",
    "f13", "mlft", "f24",
];
const SRC_POOL: [&str; 14] = ["a", "b", "c", "d", "e", "f", "1", "2", "lsft", "lctl", "spc", "ret", "tab", "mlft"];
const OUT_KEYS: [&str; 16] = ["a", "b", "c", "d", "e", "f", "g", "h", "1", "2", "3", "spc", "ret", "tab", "f13", "lalt"];
const NONMOD: [&str; 10] = ["a", "b", "c", "d", "e", "1", "2", "spc", "ret", "f13"];
const MODS: [&str; 5] = ["lsft", "rsft", "lctl", "lalt", "ralt"];
const CHORD_PREFIX: [&str; 6] = ["S-", "C-", "A-", "RA-", "C-S-", "M-"];
const NKEYS: usize = kanata_parser::layers::KEYS_IN_ROW;

#[derive(Clone)]
struct Ctx {
    src: Vec<String>,
    layers: Vec<String>,
    vkeys: Vec<String>,
    chord_groups: Vec<(String, Vec<String>)>,
    block_unmapped: bool,
    process_unmapped: bool,
    counter: usize,
}

impl Ctx {
    fn fresh(&mut self, p: &str) -> String {
        self.counter += 1;
        format!("{p}{}", self.counter)
    }
}

// ------------------------------------------------------------------------------------ action grammar

fn pick<'a>(r: &mut Rng, xs: &'a [&'a str]) -> &'a str {
    xs[r.below(xs.len() as u64) as usize]
}

fn gen_key(r: &mut Rng) -> T {
    a(pick(r, &OUT_KEYS))
}

fn gen_time(r: &mut Rng) -> T {
    num(*r.pick(&[1u64, 50, 100, 150, 200, 300, 500, 1000, 65535]))
}

fn gen_keylist(r: &mut Rng, lo: u64, hi: u64) -> T {
    let n = r.range(lo, hi);
    l((0..n).map(|_| gen_key(r)).collect())
}

fn gen_simple(r: &mut Rng, c: &Ctx) -> T {
    match r.below(10) {
        0..=4 => gen_key(r),
        5 => a(&format!("{}{}", pick(r, &CHORD_PREFIX), pick(r, &OUT_KEYS))),
        6 => a(pick(r, &MODS)),
        7 => a("XX"),
        8 => a("_"),
        _ => l(vec![a("layer-while-held"), a(&c.layers[r.below(c.layers.len() as u64) as usize])]),
    }
}

fn gen_macro_items(r: &mut Rng, depth: u32) -> Vec<T> {
    let n = r.range(1, 5);
    let mut v = vec![];
    for _ in 0..n {
        match r.below(8) {
            0..=3 => v.push(gen_key(r)),
            4 => v.push(num(*r.pick(&[1u64, 5, 10, 50, 200]))),
            5 => v.push(a(&format!("{}{}", pick(r, &CHORD_PREFIX), pick(r, &OUT_KEYS)))),
            6 if depth > 0 => {
                v.push(a(pick(r, &["S-", "C-", "A-"])));
                v.push(l(gen_macro_items(r, depth - 1)));
            }
            _ => v.push(gen_key(r)),
        }
    }
    v
}

fn gen_cond(r: &mut Rng, c: &Ctx, depth: u32) -> T {
    if depth == 0 || r.chance(1, 2) {
        match r.below(6) {
            0..=3 => gen_key(r),
            4 => l(vec![a("layer"), a(&c.layers[r.below(c.layers.len() as u64) as usize])]),
            _ => l(vec![a("key-history"), gen_key(r), num(r.range(1, 8))]),
        }
    } else {
        let op = pick(r, &["or", "and", "not"]);
        let n = r.range(1, 3);
        let mut v = vec![a(op)];
        for _ in 0..n {
            v.push(gen_cond(r, c, depth - 1));
        }
        l(v)
    }
}

/// `tap_ok`: tap-hold is not allowed as the tap action of a tap-hold
fn gen_action(r: &mut Rng, c: &Ctx, depth: u32, no_holdtap: bool) -> T {
    if depth == 0 {
        return gen_simple(r, c);
    }
    let lay = |r: &mut Rng| a(&c.layers[r.below(c.layers.len() as u64) as usize]);
    match r.below(30) {
        0..=7 => gen_simple(r, c),
        8 => l(vec![a(pick(r, &["layer-switch", "layer-toggle", "layer-while-held"])), lay(r)]),
        9..=11 if !no_holdtap => {
            let kind = pick(r, &["tap-hold", "tap-hold-press", "tap-hold-release"]);
            l(vec![a(kind), gen_time(r), gen_time(r), gen_action(r, c, depth - 1, true), gen_action(r, c, depth - 1, false)])
        }
        12 if !no_holdtap => {
            let kind = pick(r, &["tap-hold-press-timeout", "tap-hold-release-timeout"]);
            l(vec![
                a(kind),
                gen_time(r),
                gen_time(r),
                gen_action(r, c, depth - 1, true),
                gen_action(r, c, depth - 1, false),
                gen_action(r, c, depth - 1, false),
            ])
        }
        13 if !no_holdtap => {
            let kind = pick(r, &["tap-hold-release-keys", "tap-hold-except-keys"]);
            l(vec![a(kind), gen_time(r), gen_time(r), gen_action(r, c, depth - 1, true), gen_action(r, c, depth - 1, false), gen_keylist(r, 0, 3)])
        }
        14 | 15 => {
            let kind = pick(r, &["one-shot", "one-shot-press", "one-shot-release", "one-shot-press-pcancel"]);
            let inner = match r.below(3) {
                0 => a(pick(r, &MODS)),
                1 => a(&format!("{}{}", pick(r, &CHORD_PREFIX), pick(r, &MODS))),
                _ => l(vec![a("layer-while-held"), lay(r)]),
            };
            l(vec![a(kind), gen_time(r), inner])
        }
        16 | 17 => {
            let kind = pick(r, &["tap-dance", "tap-dance-eager"]);
            let n = r.range(1, 4);
            l(vec![a(kind), gen_time(r), l((0..n).map(|_| gen_action(r, c, depth - 1, true)).collect())])
        }
        18 | 19 => {
            let kind = pick(r, &["macro", "macro", "macro-release-cancel", "macro-repeat"]);
            let mut v = vec![a(kind)];
            v.extend(gen_macro_items(r, 2));
            l(v)
        }
        20 | 21 => {
            let n = r.range(2, 3);
            let mut v = vec![a("multi")];
            for _ in 0..n {
                v.push(match r.below(4) {
                    0 => l(vec![a("layer-while-held"), lay(r)]),
                    1 => {
                        let mut m = vec![a("macro")];
                        m.extend(gen_macro_items(r, 1));
                        l(m)
                    }
                    _ => gen_simple(r, c),
                });
            }
            l(v)
        }
        22 | 23 => l(vec![a("fork"), gen_action(r, c, depth - 1, false), gen_action(r, c, depth - 1, false), gen_keylist(r, 1, 3)]),
        24 | 25 => {
            let n = r.range(1, 3);
            let mut v = vec![a("switch")];
            for _ in 0..n {
                let k = r.range(0, 2);
                v.push(l((0..k).map(|_| gen_cond(r, c, 2)).collect()));
                v.push(gen_action(r, c, depth - 1, false));
                v.push(a(pick(r, &["break", "fallthrough"])));
            }
            l(v)
        }
        26 => l(vec![a(pick(r, &["unmod", "unshift"])), gen_key(r)]),
        27 => match r.below(4) {
            0 => l(vec![a("caps-word"), gen_time(r)]),
            1 => l(vec![a("release-key"), a(pick(r, &MODS))]),
            2 => l(vec![a("release-layer"), lay(r)]),
            _ => a("rpt"),
        },
        28 if !c.vkeys.is_empty() => {
            let vk = a(&c.vkeys[r.below(c.vkeys.len() as u64) as usize]);
            match r.below(3) {
                0 => l(vec![a("on-press"), a(pick(r, &["tap-vkey", "press-vkey", "toggle-vkey"])), vk]),
                1 => l(vec![a("on-release"), a(pick(r, &["tap-vkey", "release-vkey"])), vk]),
                _ => l(vec![a("on-press-fakekey"), vk, a(pick(r, &["tap", "press", "release", "toggle"]))]),
            }
        }
        29 if !c.chord_groups.is_empty() => {
            let (g, ks) = &c.chord_groups[r.below(c.chord_groups.len() as u64) as usize];
            l(vec![a("chord"), a(g), a(&ks[r.below(ks.len() as u64) as usize])])
        }
        _ => gen_simple(r, c),
    }
}

// ------------------------------------------------------------------------------------ configurations

struct Gen {
    items: Vec<T>,
    ctx: Ctx,
}

fn gen_config(r: &mut Rng, rich: bool) -> Gen {
    let nsrc = r.range(2, 7) as usize;
    let mut pool: Vec<&str> = SRC_POOL.to_vec();
    let mut src = vec![];
    for _ in 0..nsrc {
        let i = r.below(pool.len() as u64) as usize;
        src.push(pool.remove(i).to_string());
    }
    let nlayers = r.range(1, 3) as usize;
    let layers: Vec<String> = (0..nlayers).map(|i| format!("l{i}")).collect();
    let nvk = if rich && r.chance(1, 2) { r.range(1, 3) as usize } else { 0 };
    let vkeys: Vec<String> = (0..nvk).map(|i| format!("vk{i}")).collect();
    let mut ctx = Ctx {
        src: src.clone(),
        layers: layers.clone(),
        vkeys: vkeys.clone(),
        chord_groups: vec![],
        block_unmapped: false,
        process_unmapped: false,
        counter: 0,
    };
    let mut items: Vec<T> = vec![];
    // defcfg
    let mut cfgopts: Vec<T> = vec![];
    let want_v2 = rich && r.chance(1, 6);
    if r.chance(1, 2) {
        ctx.process_unmapped = r.chance(1, 2);
        cfgopts.push(a("process-unmapped-keys"));
        cfgopts.push(a(if ctx.process_unmapped { "yes" } else { "no" }));
    }
    if r.chance(1, 5) {
        ctx.block_unmapped = true;
        cfgopts.push(a("block-unmapped-keys"));
        cfgopts.push(a("yes"));
    }
    if want_v2 || r.chance(1, 6) {
        cfgopts.push(a("concurrent-tap-hold"));
        cfgopts.push(a("yes"));
    }
    if r.chance(1, 6) {
        cfgopts.push(a("sequence-timeout"));
        cfgopts.push(num(*r.pick(&[100u64, 500, 2000])));
    }
    if r.chance(1, 8) {
        cfgopts.push(a("delegate-to-first-layer"));
        cfgopts.push(a("yes"));
    }
    if r.chance(1, 8) {
        cfgopts.push(a("rapid-event-delay"));
        cfgopts.push(num(*r.pick(&[0u64, 5, 20])));
    }
    if !cfgopts.is_empty() || r.chance(1, 3) {
        let mut v = vec![a("defcfg")];
        v.extend(cfgopts);
        items.push(l(v));
    }
    // chord groups (v1)
    let want_chords = rich && nsrc >= 3 && r.chance(1, 5);
    if want_chords {
        let g = "cg0".to_string();
        let ks: Vec<String> = vec!["k1".into(), "k2".into(), "k3".into()];
        let mut v = vec![a("defchords"), a(&g), gen_time(r)];
        for combo in [vec![0], vec![1], vec![2], vec![0, 1], vec![1, 2]] {
            if combo.len() == 1 || r.chance(2, 3) {
                v.push(l(combo.iter().map(|i| a(&ks[*i])).collect()));
                v.push(gen_action(r, &ctx, 1, true));
            }
        }
        ctx.chord_groups.push((g, ks));
        items.push(l(v));
    }
    // defsrc
    let mut v = vec![a("defsrc")];
    v.extend(src.iter().map(|s| a(s)));
    items.push(l(v));
    // layers
    for name in &layers {
        if r.chance(1, 5) {
            // an original deflayermap
            let mut v = vec![a("deflayermap"), l(vec![a(name)])];
            v[1] = a(name);
            let mut ks = src.clone();
            let n = r.range(1, ks.len() as u64) as usize;
            for _ in 0..n {
                let i = r.below(ks.len() as u64) as usize;
                v.push(a(&ks.remove(i)));
                v.push(gen_action(r, &ctx, 3, false));
            }
            if r.chance(1, 3) {
                v.push(a("_"));
                v.push(gen_action(r, &ctx, 1, false));
            }
            items.push(l(v));
        } else {
            let mut v = vec![a("deflayer"), a(name)];
            // a few repeated shapes make templates worthwhile
            let common = gen_action(r, &ctx, 2, false);
            for _ in 0..src.len() {
                v.push(if r.chance(1, 4) { common.clone() } else { gen_action(r, &ctx, 3, false) });
            }
            items.push(l(v));
        }
    }
    if want_chords {
        // every key of a chord group must be bound somewhere
        if !items.iter().any(|t| t.head() == Some("deflayer")) {
            let mut v = vec![a("deflayer"), a("lc")];
            v.extend((0..src.len()).map(|_| a("_")));
            items.push(l(v));
            ctx.layers.push("lc".into());
        }
        if let Some(T::L(lv)) = items.iter_mut().find(|t| t.head() == Some("deflayer")) {
            for (i, k) in ["k1", "k2", "k3"].iter().enumerate() {
                lv[2 + i] = l(vec![a("chord"), a("cg0"), a(k)]);
            }
        }
    }
    // virtual keys
    if !vkeys.is_empty() {
        let kw = if r.chance(1, 2) { "defvirtualkeys" } else { "deffakekeys" };
        let mut v = vec![a(kw)];
        for k in &vkeys {
            v.push(a(k));
            let mut c2 = ctx.clone();
            c2.vkeys.clear();
            c2.chord_groups.clear();
            v.push(gen_action(r, &c2, 2, false));
        }
        items.push(l(v));
        if r.chance(1, 2) {
            let mut v = vec![a("defseq")];
            let firsts = ["a", "b", "c"];
            for (i, k) in vkeys.iter().enumerate() {
                v.push(a(k));
                let mut seq = vec![a(firsts[i])];
                for _ in 0..r.range(1, 2) {
                    seq.push(if r.chance(1, 4) { a(&format!("S-{}", pick(r, &OUT_KEYS))) } else { gen_key(r) });
                }
                v.push(l(seq));
            }
            items.push(l(v));
            // make the leader reachable
            if let Some(T::L(lv)) = items.iter_mut().find(|t| t.head() == Some("deflayer")) {
                let n = lv.len();
                lv[n - 1] = a("sldr");
            }
        }
    }
    // overrides
    if rich && r.chance(1, 4) {
        let mut v = vec![a("defoverrides")];
        for _ in 0..r.range(1, 2) {
            v.push(l(vec![a(pick(r, &MODS)), a(pick(r, &NONMOD))]));
            v.push(if r.chance(1, 2) { l(vec![a(pick(r, &NONMOD))]) } else { l(vec![a(pick(r, &MODS)), a(pick(r, &NONMOD))]) });
        }
        items.push(l(v));
    }
    // chords v2
    if want_v2 {
        let mut v = vec![a("defchordsv2")];
        let combos = [["a", "b"], ["c", "d"], ["e", "f"]];
        for cb in combos.iter().take(r.range(1, 3) as usize) {
            v.push(l(cb.iter().map(|k| a(k)).collect()));
            let mut act = gen_action(r, &ctx, 1, false);
            if act == a("_") {
                act = a("x");
            }
            v.push(act);
            v.push(gen_time(r));
            v.push(a(pick(r, &["all-released", "first-release"])));
            v.push(l(vec![]));
        }
        items.push(l(v));
    }
    // a pre-existing variable with concat
    if rich && r.chance(1, 8) {
        items.push(rd("(defvar base S- shifted (concat $base a))"));
        if let Some(T::L(lv)) = items.iter_mut().find(|t| t.head() == Some("deflayer")) {
            lv[2] = a("$shifted");
        }
    }
    // mild shuffle of the order of top-level items (kanata does not care about the order of kinds)
    for _ in 0..r.below(4) {
        let i = r.below(items.len() as u64) as usize;
        let j = r.below(items.len() as u64) as usize;
        items.swap(i, j);
    }
    Gen { items, ctx }
}

// ------------------------------------------------------------------------------------ sites

#[derive(Clone, Copy, Debug, PartialEq, Eq)]
enum Kind {
    Action,     // parse_action position
    MacroKey,   // non-numeric key/chord atom inside a macro
    Number,     // a number read through atom(vars)
    KeyName,    // a key name read through atom(vars)
    LayerName,  // layer name read through atom(vars)
    ListValue,  // a list read through list(vars) (key list, tap-dance list, switch condition)
}

#[derive(Clone, Debug)]
struct Site {
    path: Vec<usize>,
    kind: Kind,
    in_vk: bool,
    in_alias_item: bool,
}

fn get<'a>(items: &'a [T], path: &[usize]) -> &'a T {
    let mut t = &items[path[0]];
    for i in &path[1..] {
        t = &t.list().unwrap()[*i];
    }
    t
}

fn set(items: &mut [T], path: &[usize], new: T) {
    let mut t = &mut items[path[0]];
    for i in &path[1..] {
        t = match t {
            T::L(v) => &mut v[*i],
            _ => unreachable!(),
        };
    }
    *t = new;
}

struct Walk {
    out: Vec<Site>,
    in_vk: bool,
    in_alias_item: bool,
}

impl Walk {
    fn push(&mut self, path: &[usize], kind: Kind) {
        self.out.push(Site { path: path.to_vec(), kind, in_vk: self.in_vk, in_alias_item: self.in_alias_item });
    }

    fn keylist(&mut self, t: &T, path: &mut Vec<usize>) {
        if let T::L(v) = t {
            self.push(path, Kind::ListValue);
            for (i, k) in v.iter().enumerate() {
                if k.atom().is_some() {
                    path.push(i);
                    self.push(path, Kind::KeyName);
                    path.pop();
                }
            }
        }
    }

    fn macro_items(&mut self, v: &[T], start: usize, path: &mut Vec<usize>) {
        for (i, t) in v.iter().enumerate().skip(start) {
            path.push(i);
            match t {
                T::A(s) => {
                    if s.bytes().all(|b| b.is_ascii_digit()) {
                        self.push(path, Kind::Number);
                    } else if !s.ends_with('-') && !s.starts_with('$') && !s.starts_with('@') {
                        self.push(path, Kind::MacroKey);
                    }
                }
                T::L(sub) => self.macro_items(sub, 0, path),
            }
            path.pop();
        }
    }

    fn cond(&mut self, t: &T, path: &mut Vec<usize>) {
        match t {
            T::A(s) => {
                if !s.starts_with('$') {
                    self.push(path, Kind::KeyName)
                }
            }
            T::L(v) => match t.head() {
                Some("or") | Some("and") | Some("not") => {
                    for (i, x) in v.iter().enumerate().skip(1) {
                        path.push(i);
                        self.cond(x, path);
                        path.pop();
                    }
                }
                Some("layer") | Some("base-layer") => {
                    path.push(1);
                    self.push(path, Kind::LayerName);
                    path.pop();
                }
                _ => {}
            },
        }
    }

    fn action(&mut self, t: &T, path: &mut Vec<usize>) {
        match t {
            T::A(s) => {
                if !s.starts_with('$') {
                    self.push(path, Kind::Action);
                }
            }
            T::L(v) => {
                let Some(h) = t.head() else { return };
                if h == "t!" || h == "template-expand" || v.iter().any(|x| matches!(x.head(), Some("t!") | Some("template-expand"))) {
                    // positions inside are not stable before expansion
                    return;
                }
                self.push(path, Kind::Action);
                let numf = |w: &mut Walk, x: &T, p: &mut Vec<usize>| {
                    if x.atom().is_some_and(|s| !s.starts_with('$')) {
                        w.push(p, Kind::Number)
                    }
                };
                let actf = |w: &mut Walk, x: &T, p: &mut Vec<usize>| w.action(x, p);
                let klf = |w: &mut Walk, x: &T, p: &mut Vec<usize>| w.keylist(x, p);
                let layf = |w: &mut Walk, x: &T, p: &mut Vec<usize>| {
                    if x.atom().is_some_and(|s| !s.starts_with('$')) {
                        w.push(p, Kind::LayerName)
                    }
                };
                match h {
                    "layer-while-held" | "layer-switch" | "layer-toggle" | "release-layer" => sub_at(self, v, 1, path, &layf),
                    "tap-hold" | "tap-hold-press" | "tap-hold-release" => {
                        sub_at(self, v, 1, path, &numf);
                        sub_at(self, v, 2, path, &numf);
                        sub_at(self, v, 3, path, &actf);
                        sub_at(self, v, 4, path, &actf);
                    }
                    "tap-hold-press-timeout" | "tap-hold-release-timeout" => {
                        sub_at(self, v, 1, path, &numf);
                        sub_at(self, v, 2, path, &numf);
                        sub_at(self, v, 3, path, &actf);
                        sub_at(self, v, 4, path, &actf);
                        sub_at(self, v, 5, path, &actf);
                    }
                    "tap-hold-release-keys" | "tap-hold-except-keys" => {
                        sub_at(self, v, 1, path, &numf);
                        sub_at(self, v, 2, path, &numf);
                        sub_at(self, v, 3, path, &actf);
                        sub_at(self, v, 4, path, &actf);
                        sub_at(self, v, 5, path, &klf);
                    }
                    "one-shot" | "one-shot-press" | "one-shot-release" | "one-shot-press-pcancel" => {
                        sub_at(self, v, 1, path, &numf);
                        sub_at(self, v, 2, path, &actf);
                    }
                    "tap-dance" | "tap-dance-eager" => {
                        sub_at(self, v, 1, path, &numf);
                        if let Some(T::L(acts)) = v.get(2) {
                            path.push(2);
                            self.push(path, Kind::ListValue);
                            for (i, x) in acts.iter().enumerate() {
                                path.push(i);
                                self.action(x, path);
                                path.pop();
                            }
                            path.pop();
                        }
                    }
                    "macro" | "macro-release-cancel" | "macro-repeat" => self.macro_items(v, 1, path),
                    "multi" => {
                        for i in 1..v.len() {
                            sub_at(self, v, i, path, &actf);
                        }
                    }
                    "fork" => {
                        sub_at(self, v, 1, path, &actf);
                        sub_at(self, v, 2, path, &actf);
                        sub_at(self, v, 3, path, &klf);
                    }
                    "switch" => {
                        let mut i = 1;
                        while i + 2 < v.len() {
                            if let Some(T::L(cs)) = v.get(i) {
                                path.push(i);
                                self.push(path, Kind::ListValue);
                                for (j, x) in cs.iter().enumerate() {
                                    path.push(j);
                                    self.cond(x, path);
                                    path.pop();
                                }
                                path.pop();
                            }
                            sub_at(self, v, i + 1, path, &actf);
                            i += 3;
                        }
                    }
                    "unmod" | "unshift" => {
                        for i in 1..v.len() {
                            if v[i].atom().is_some_and(|s| !s.starts_with('$')) {
                                path.push(i);
                                self.push(path, Kind::KeyName);
                                path.pop();
                            }
                        }
                    }
                    "caps-word" => sub_at(self, v, 1, path, &numf),
                    "release-key" => sub_at(self, v, 1, path, &actf),
                    _ => {}
                }
            }
        }
    }
}

fn sub_at(w: &mut Walk, v: &[T], i: usize, path: &mut Vec<usize>, f: &dyn Fn(&mut Walk, &T, &mut Vec<usize>)) {
    if let Some(x) = v.get(i) {
        path.push(i);
        f(w, x, path);
        path.pop();
    }
}

fn has_expand(t: &T) -> bool {
    match t {
        T::A(_) => false,
        T::L(v) => matches!(t.head(), Some("t!") | Some("template-expand")) || v.iter().any(has_expand),
    }
}

/// positions of the configuration at which a value or an action may be replaced by `$var` / `@alias`
fn sites(items: &[T]) -> Vec<Site> {
    let mut w = Walk { out: vec![], in_vk: false, in_alias_item: false };
    for (ti, item) in items.iter().enumerate() {
        let Some(v) = item.list() else { continue };
        let Some(h) = item.head() else { continue };
        // a top-level item whose direct children contain an expansion has unstable positions
        if v.iter().any(|x| matches!(x.head(), Some("t!") | Some("template-expand"))) {
            continue;
        }
        let mut path = vec![ti];
        w.in_vk = false;
        w.in_alias_item = false;
        match h {
            "deflayer" => {
                for i in 2..v.len() {
                    path.push(i);
                    w.action(&v[i], &mut path);
                    path.pop();
                }
            }
            "deflayermap" => {
                let mut i = 2;
                while i + 1 < v.len() {
                    if v[i].atom().is_some_and(|s| !s.starts_with('_') && !s.starts_with('$')) {
                        path.push(i);
                        w.push(&path, Kind::KeyName);
                        path.pop();
                    }
                    path.push(i + 1);
                    w.action(&v[i + 1], &mut path);
                    path.pop();
                    i += 2;
                }
            }
            "defalias" | "defvirtualkeys" | "deffakekeys" => {
                w.in_vk = h != "defalias";
                w.in_alias_item = h == "defalias";
                let mut i = 1;
                while i + 1 < v.len() {
                    path.push(i + 1);
                    w.action(&v[i + 1], &mut path);
                    path.pop();
                    i += 2;
                }
            }
            "defchords" => {
                if v.len() > 2 && v[2].atom().is_some_and(|s| !s.starts_with('$')) {
                    path.push(2);
                    w.push(&path, Kind::Number);
                    path.pop();
                }
                let mut i = 3;
                while i + 1 < v.len() {
                    path.push(i + 1);
                    w.action(&v[i + 1], &mut path);
                    path.pop();
                    i += 2;
                }
            }
            "defchordsv2" => {
                let mut i = 1;
                while i + 4 < v.len() {
                    path.push(i);
                    w.keylist(&v[i], &mut path);
                    path.pop();
                    path.push(i + 1);
                    w.action(&v[i + 1], &mut path);
                    path.pop();
                    if v[i + 2].atom().is_some_and(|s| !s.starts_with('$')) {
                        path.push(i + 2);
                        w.push(&path, Kind::Number);
                        path.pop();
                    }
                    i += 5;
                }
            }
            "defseq" => {
                // sequences are read before the aliases exist, like virtual keys
                w.in_vk = true;
                let mut i = 1;
                while i + 1 < v.len() {
                    if let T::L(ks) = &v[i + 1] {
                        path.push(i + 1);
                        w.push(&path, Kind::ListValue);
                        w.macro_items(ks, 0, &mut path);
                        path.pop();
                    }
                    i += 2;
                }
            }
            "defoverrides" => {
                for i in 1..v.len() {
                    path.push(i);
                    w.keylist(&v[i], &mut path);
                    path.pop();
                }
            }
            "defvar" => {
                // a variable whose value is another variable
                let mut i = 1;
                while i + 1 < v.len() {
                    if v[i + 1].atom().is_some_and(|s| s.bytes().all(|b| b.is_ascii_digit())) {
                        path.push(i + 1);
                        w.push(&path, Kind::Number);
                        path.pop();
                    }
                    i += 2;
                }
            }
            _ => {}
        }
    }
    // a site is only meaningful when the positions on its path are stable: nothing on the way down
    // is an expansion or has an expansion among its direct children
    let is_exp = |t: &T| matches!(t.head(), Some("t!") | Some("template-expand"));
    w.out.retain(|s| {
        let mut t = &items[s.path[0]];
        for i in &s.path[1..] {
            let Some(v) = t.list() else { return false };
            if is_exp(t) || v.iter().any(|x| is_exp(x)) {
                return false;
            }
            t = &v[*i];
        }
        !is_exp(t)
    });
    w.out
}

// ------------------------------------------------------------------------------------ rewrites

fn concat_with_var(t: &T) -> bool {
    match t {
        T::A(_) => false,
        // (a nested list inside the concat may hide a variable behind another template call)
        T::L(v) => {
            (t.head() == Some("concat") && (t.contains_atom(&|s: &str| s.starts_with('$')) || v.iter().any(|x| x.list().is_some())))
                || v.iter().any(concat_with_var)
        }
    }
}

/// positions of a list that the template engine itself reads (bypass class `templateEngine`): the
/// keyword and the template name of an expansion, the keyword and the comparands of a conditional
fn engine_positions(head: Option<&str>) -> usize {
    match head {
        Some("t!") | Some("template-expand") => 2,
        Some("if-equal") | Some("if-not-equal") | Some("if-in-list") | Some("if-not-in-list") => 3,
        _ => 0,
    }
}

/// a `(platform (...) item)` wrapper is looked through
fn unwrap_platform(t: &T) -> &T {
    if t.head() == Some("platform") {
        if let Some(v) = t.list() {
            if v.len() == 3 {
                return &v[2];
            }
        }
    }
    t
}

struct Rw<'a> {
    items: Vec<T>,
    files: Vec<(String, Vec<T>)>,
    ctx: &'a mut Ctx,
    log: Vec<String>,
}

impl<'a> Rw<'a> {
    fn rw_alias(&mut self, r: &mut Rng) -> bool {
        let ss: Vec<Site> = sites(&self.items)
            .into_iter()
            .filter(|s| matches!(s.kind, Kind::Action | Kind::MacroKey) && !s.in_vk)
            .filter(|s| {
                let e = get(&self.items, &s.path);
                // context-dependent atoms are not actions in their own right
                !matches!(e.atom(), Some("reverse-release-order") | Some("break") | Some("fallthrough"))
            })
            .collect();
        if ss.is_empty() {
            return false;
        }
        let s = ss[r.below(ss.len() as u64) as usize].clone();
        let e = get(&self.items, &s.path).clone();
        let name = self.ctx.fresh("al");
        set(&mut self.items, &s.path, a(&format!("@{name}")));
        let def = l(vec![a("defalias"), a(&name), e]);
        if s.in_alias_item {
            // definitions must precede uses, and may use everything defined before the use: the new
            // pair goes right before the pair that uses it (same item), or — when that is the first
            // pair of its item — possibly into an item of its own right before
            if s.path[1] == 2 && r.chance(1, 2) {
                self.items.insert(s.path[0], def);
            } else if let T::L(v) = &mut self.items[s.path[0]] {
                let T::L(d) = def else { unreachable!() };
                let at = s.path[1] - 1;
                v.splice(at..at, d.into_iter().skip(1));
            }
        } else {
            // used by layers/chords only: all defalias items are read before those, in text order;
            // the body may use any existing alias, so the definition goes last
            // … or into the last defalias item, provided nothing after it could hide another definition
            let opaque = |t: &T| matches!(t.head(), None | Some("t!") | Some("template-expand") | Some("include") | Some("platform"));
            let last_alias = self
                .items
                .iter()
                .rposition(|t| t.head() == Some("defalias"))
                .filter(|i| !self.items[*i + 1..].iter().any(|t| opaque(t)));
            if let (Some(i), true) = (last_alias, r.chance(1, 3)) {
                if let T::L(v) = &mut self.items[i] {
                    if !has_expand(&T::L(v.clone())) {
                        let T::L(d) = def else { unreachable!() };
                        v.extend(d.into_iter().skip(1));
                        self.log.push("alias+".into());
                        return true;
                    }
                }
            }
            self.items.push(def);
        }
        self.log.push("alias".into());
        true
    }

    fn rw_var(&mut self, r: &mut Rng) -> bool {
        let ss: Vec<Site> = sites(&self.items).into_iter().filter(|s| s.kind != Kind::MacroKey || true).collect();
        if ss.is_empty() {
            return false;
        }
        let s = ss[r.below(ss.len() as u64) as usize].clone();
        let e = get(&self.items, &s.path).clone();
        if e.head() == Some("concat") {
            return false;
        }
        // share: a value that an existing variable already names is referred to through that variable
        // (so that one variable gets used several times, also from inside other variables' values)
        if r.chance(1, 2) {
            let mut shared: Option<String> = None;
            for it in self.items.iter() {
                if it.head() == Some("defvar") && !has_expand(it) {
                    if let T::L(v) = it {
                        let mut k = 1;
                        while k + 1 < v.len() {
                            if v[k + 1] == e && s.path[0] != usize::MAX {
                                if let T::A(n) = &v[k] {
                                    shared = Some(n.clone());
                                }
                            }
                            k += 2;
                        }
                    }
                }
            }
            if let Some(n) = shared {
                // the reference must come after the definition when it sits in a defvar itself
                let def_idx = self.items.iter().position(|it| it.head() == Some("defvar") && matches!(it, T::L(v) if v.iter().any(|x| matches!(x, T::A(m) if *m == n))));
                let ok = match (def_idx, self.items[s.path[0]].head()) {
                    (Some(d), Some("defvar")) => d < s.path[0],
                    (Some(_), _) => true,
                    _ => false,
                };
                if ok {
                    set(&mut self.items, &s.path, a(&format!("${n}")));
                    self.log.push("var-shared".into());
                    return true;
                }
            }
        }
        let name = self.ctx.fresh("v");
        set(&mut self.items, &s.path, a(&format!("${name}")));
        let existing: Vec<usize> = self
            .items
            .iter()
            .enumerate()
            .filter(|(_, t)| t.head() == Some("defvar") && !has_expand(t))
            .map(|(i, _)| i)
            .collect();
        if !existing.is_empty() && r.chance(1, 3) {
            let i = existing[r.below(existing.len() as u64) as usize];
            if let T::L(v) = &mut self.items[i] {
                v.push(a(&name));
                v.push(e);
            }
            self.log.push("var+".into());
        } else {
            let pos = r.below(self.items.len() as u64 + 1) as usize;
            self.items.insert(pos, l(vec![a("defvar"), a(&name), e]));
            self.log.push(format!("var:{:?}", s.kind));
        }
        true
    }

    /// all (path-of-parent, start, len) runs of siblings that may become a template body
    fn shape_sites(&self, r: &mut Rng) -> Option<(Vec<usize>, usize, usize)> {
        // pick a random list node (by walking), then a run inside it
        let mut cands: Vec<(Vec<usize>, usize)> = vec![]; // (path of a list, its length)
        fn walk(t: &T, path: &mut Vec<usize>, out: &mut Vec<(Vec<usize>, usize)>) {
            if let T::L(v) = t {
                if !v.is_empty() {
                    out.push((path.clone(), v.len()));
                }
                for (i, x) in v.iter().enumerate() {
                    path.push(i);
                    walk(x, path, out);
                    path.pop();
                }
            }
        }
        for (ti, item) in self.items.iter().enumerate() {
            match item.head() {
                Some("include") | Some("platform") | Some("environment") => continue,
                _ => {}
            }
            let mut p = vec![ti];
            walk(item, &mut p, &mut cands);
            let _ = unwrap_platform(item);
        }
        if cands.is_empty() {
            return None;
        }
        let (path, len) = cands[r.below(cands.len() as u64) as usize].clone();
        let run = r.range(1, 3.min(len as u64)) as usize;
        let start = r.below((len - run + 1) as u64) as usize;
        let node = get(&self.items, &path);
        let mut protected = engine_positions(node.head());
        // an argument of an expansion may end up as a comparand of a conditional, which must be a string
        if matches!(node.head(), Some("t!") | Some("template-expand")) {
            protected = len;
        }
        if start < protected {
            return None;
        }
        // … including everything below such a position (e.g. inside the list comparand of if-in-list)
        {
            let mut t = &self.items[path[0]];
            for i in &path[1..] {
                if *i < engine_positions(t.head()) {
                    return None;
                }
                t = &t.list().unwrap()[*i];
            }
        }
        // name and parameter list of a deftemplate are read by the template collector
        if self.items[path[0]].head() == Some("deftemplate") && (path.len() == 1 && start < 3 || path.len() > 1 && path[1] < 3) {
            return None;
        }
        Some((path, start, run))
    }

    fn in_deftemplate(&self, path: &[usize]) -> bool {
        self.items[path[0]].head() == Some("deftemplate")
    }

    fn rw_template(&mut self, r: &mut Rng) -> bool {
        let Some((ppath, start, run)) = self.shape_sites(r) else { return false };
        let parent = get(&self.items, &ppath).list().unwrap().clone();
        let mut body: Vec<T> = parent[start..start + run].to_vec();
        // the keyword of a top-level item decides how the text is *read* before templates exist
        // (include / platform); those were excluded. A deftemplate's own name and parameter list
        // are read by the template collector, not expanded.
        if body.iter().any(|t| t.contains_atom(&|s: &str| s == "deftemplate")) {
            return false;
        }
        // finding D2 (see KNOWN_FINDINGS): inside an expanded template `(concat …)` is evaluated at once
        // with an empty variable table, so a concat that mentions a defvar variable changes meaning;
        // such shapes are left alone here and exercised by a dedicated case
        if body.iter().any(concat_with_var) || (parent.first() == Some(&a("concat")) && parent.iter().any(|t| t.contains_atom(&|s: &str| s.starts_with('$'))) && start == 0) {
            return false;
        }
        // finding D1 (see KNOWN_FINDINGS): expansions inside the body of a deftemplate item are also
        // performed on the item itself with the parameters unsubstituted, so a conditional moved into
        // a nested template is evaluated on the literal `$param`; such shapes are left alone here and
        // exercised by a dedicated case
        if self.in_deftemplate(&ppath) && body.iter().any(|t| t.contains_atom(&|s: &str| s.starts_with("if-"))) {
            return false;
        }
        // choose holes: subtrees of the body that become parameters
        let inside_tpl = self.in_deftemplate(&ppath);
        let mut holes: Vec<Vec<usize>> = vec![];
        fn collect(t: &T, path: &mut Vec<usize>, out: &mut Vec<Vec<usize>>) {
            out.push(path.clone());
            if let T::L(v) = t {
                // (arguments of an expansion inside the body stay as they are: see finding D1)
                let prot = if matches!(t.head(), Some("t!") | Some("template-expand")) { v.len() } else { engine_positions(t.head()) };
                for (i, x) in v.iter().enumerate().skip(prot) {
                    path.push(i);
                    collect(x, path, out);
                    path.pop();
                }
            }
        }
        let mut all: Vec<Vec<usize>> = vec![];
        for (i, t) in body.iter().enumerate() {
            let mut p = vec![i];
            collect(t, &mut p, &mut all);
        }
        let nholes = r.below(4) as usize;
        for _ in 0..nholes {
            let h = all[r.below(all.len() as u64) as usize].clone();
            if holes.iter().any(|x| x.starts_with(&h) || h.starts_with(x)) {
                continue;
            }
            holes.push(h);
        }
        let mut forced = 0;
        if inside_tpl {
            // parameters of the enclosing template must be passed on explicitly
            for p in &all {
                let t = {
                    let mut t = &body[p[0]];
                    for i in &p[1..] {
                        t = &t.list().unwrap()[*i];
                    }
                    t
                };
                if t.atom().is_some_and(|s| s.starts_with('$')) && !holes.iter().any(|x| p.starts_with(x)) {
                    forced += 1;
                    holes.retain(|x| !x.starts_with(p));
                    holes.push(p.clone());
                }
            }
        }
        let tname = self.ctx.fresh("tp");
        let mut params = vec![];
        let mut args = vec![];
        for (k, h) in holes.iter().enumerate() {
            let pname = format!("{tname}p{k}");
            let slot = {
                let mut t = &mut body[h[0]];
                for i in &h[1..] {
                    t = match t {
                        T::L(v) => &mut v[*i],
                        _ => unreachable!(),
                    };
                }
                t
            };
            args.push(std::mem::replace(slot, a(&format!("${pname}"))));
            params.push(a(&pname));
        }
        if inside_tpl {
            // a parameter of the enclosing template that could not be passed on (it sits at a
            // position that may not become a hole) would be left behind as plain text
            let enclosing: Vec<String> = self.items[ppath[0]]
                .list()
                .and_then(|v| v.get(2))
                .and_then(|t| t.list())
                .map(|ps| ps.iter().filter_map(|p| p.atom().map(|s| format!("${s}"))).collect())
                .unwrap_or_default();
            if body.iter().any(|t| t.contains_atom(&|s: &str| enclosing.iter().any(|e| e == s))) {
                return false;
            }
        }
        // a conditional wrapper that is true for this use
        let mut call = vec![a(if r.chance(1, 2) { "t!" } else { "template-expand" }), a(&tname)];
        call.extend(args);
        let mut def = vec![a("deftemplate"), a(&tname), l(params.clone())];
        // a conditional directly inside another conditional, placed INSIDE one of the body's lists and
        // followed, at that level or further out, by a list that has nothing to evaluate: the
        // conditional pass has to come round twice for the first list while the later one is done
        let nested_site = body.iter().enumerate().find_map(|(j, t)| match t {
            T::L(ch) if ch.len() >= 3 && (ch[2..].iter().any(|c| matches!(c, T::L(_))) || body[j + 1..].iter().any(|c| matches!(c, T::L(_)))) => Some(j),
            _ => None,
        });
        match r.below(8) {
            6 | 7 if nested_site.is_some() => {
                let j = nested_site.unwrap();
                let kname = format!("{tname}k");
                if let T::L(ps) = &mut def[2] {
                    ps.push(a(&kname));
                }
                let mut b2 = body.clone();
                if let T::L(ch) = &mut b2[j] {
                    // wrap the first argument of the list: (h c1 rest…) → (h (if-equal $k yes (if-not-equal $k no c1)) rest…)
                    let c1 = ch[1].clone();
                    ch[1] = l(vec![a("if-equal"), a(&format!("${kname}")), a("yes"), l(vec![a("if-not-equal"), a(&format!("${kname}")), a("no"), c1])]);
                }
                def.extend(b2);
                call.push(a("yes"));
            }
            0 => {
                // (if-equal $k x body…) (if-not-equal $k x other…)
                let kname = format!("{tname}k");
                if let T::L(ps) = &mut def[2] {
                    ps.push(a(&kname));
                }
                let mut t1 = vec![a("if-equal"), a(&format!("${kname}")), a("yes")];
                t1.extend(body.clone());
                let t2 = vec![a("if-not-equal"), a(&format!("${kname}")), a("yes"), a("bogus-action"), l(vec![a("if-equal")])];
                def.push(l(t1));
                def.push(l(t2));
                call.push(a("yes"));
            }
            1 => {
                let kname = format!("{tname}k");
                if let T::L(ps) = &mut def[2] {
                    ps.push(a(&kname));
                }
                let mut t1 = vec![a("if-in-list"), a(&format!("${kname}")), l(vec![a("m1"), l(vec![a("m2"), a("m3")])])];
                t1.extend(body.clone());
                let t2 = vec![a("if-not-in-list"), a(&format!("${kname}")), l(vec![a("m1"), l(vec![a("m2"), a("m3")])]), a("bogus")];
                def.push(l(t2));
                def.push(l(t1));
                call.push(a(pick(r, &["m1", "m2", "m3"])));
            }
            2 => {
                // nested conditionals, false outer branch hides a malformed inner one
                let kname = format!("{tname}k");
                if let T::L(ps) = &mut def[2] {
                    ps.push(a(&kname));
                }
                let mut inner = vec![a("if-not-equal"), a(&format!("${kname}")), a("q")];
                inner.extend(body.clone());
                def.push(l(vec![a("if-equal"), a(&format!("${kname}")), a("q"), l(vec![a("if-in-list"), a("x")])]));
                def.push(l(vec![a("if-not-in-list"), a(&format!("${kname}")), l(vec![a("q")]), l(inner)]));
                call.push(a("z"));
            }
            _ => def.extend(body.clone()),
        }
        // replace the run by the call
        let mut newparent = parent.clone();
        newparent.splice(start..start + run, [l(call)]);
        set(&mut self.items, &ppath, l(newparent));
        // templates are collected in text order before any expansion, and a template-expand inside a
        // template body must name a template defined earlier: the new definition goes right before
        // the deftemplate that now uses it, or — when it is used from ordinary items only — after
        // everything it may itself use, i.e. last
        if inside_tpl {
            self.items.insert(ppath[0], l(def));
        } else {
            self.items.push(l(def));
        }
        self.log.push(format!("tpl{}", holes.len()));
        true
    }

    /// one or two whole top-level items produced by a template
    fn rw_template_items(&mut self, r: &mut Rng) -> bool {
        let n = self.items.len();
        let i = r.below(n as u64) as usize;
        let len = r.range(1, 2.min((n - i) as u64)) as usize;
        if self.items[i..i + len].iter().any(|t| {
            matches!(t.head(), Some("include") | Some("platform") | Some("environment") | Some("deftemplate") | None)
                || t.contains_atom(&|s: &str| s == "deftemplate")
                || (t.head() == Some("defvar") && t.contains_atom(&|s: &str| s == "concat"))
        }) {
            return false;
        }
        let tname = self.ctx.fresh("tp");
        let body: Vec<T> = self.items.splice(i..i + len, [l(vec![a("t!"), a(&tname)])]).collect();
        let mut def = vec![a("deftemplate"), a(&tname), l(vec![])];
        def.extend(body);
        let pos = r.below(self.items.len() as u64 + 1) as usize;
        // the moved items may contain expansions of existing templates: define after them
        let _ = pos;
        self.items.push(l(def));
        self.log.push("tpl-items".into());
        true
    }

    /// two different sites served by one template through if-equal dispatch
    fn rw_template_dispatch(&mut self, r: &mut Rng) -> bool {
        let Some((p1, s1, n1)) = self.shape_sites(r) else { return false };
        let Some((p2, s2, n2)) = self.shape_sites(r) else { return false };
        if p1[0] == p2[0] {
            return false;
        }
        if self.in_deftemplate(&p1) || self.in_deftemplate(&p2) {
            return false;
        }
        let par1 = get(&self.items, &p1).list().unwrap().clone();
        let par2 = get(&self.items, &p2).list().unwrap().clone();
        let b1 = par1[s1..s1 + n1].to_vec();
        let b2 = par2[s2..s2 + n2].to_vec();
        // finding D2
        if b1.iter().chain(b2.iter()).any(concat_with_var) || par1.first() == Some(&a("concat")) || par2.first() == Some(&a("concat")) {
            return false;
        }
        let tname = self.ctx.fresh("tp");
        let k = format!("${tname}k");
        let mut f1 = vec![a("if-equal"), a(&k), a("one")];
        f1.extend(b1);
        let mut f2 = vec![a("if-not-equal"), a(&k), a("one")];
        f2.extend(b2);
        let def = l(vec![a("deftemplate"), a(&tname), l(vec![a(&format!("{tname}k"))]), l(f1), l(f2)]);
        let mut np1 = par1.clone();
        np1.splice(s1..s1 + n1, [l(vec![a("t!"), a(&tname), a("one")])]);
        let mut np2 = par2.clone();
        np2.splice(s2..s2 + n2, [l(vec![a("t!"), a(&tname), a("two")])]);
        set(&mut self.items, &p1, l(np1));
        set(&mut self.items, &p2, l(np2));
        self.items.push(def);
        self.log.push("tpl-dispatch".into());
        true
    }

    fn rw_include(&mut self, r: &mut Rng) -> bool {
        let n = self.items.len();
        let i = r.below(n as u64) as usize;
        let len = r.range(1, 3.min((n - i) as u64)) as usize;
        if self.items[i..i + len].iter().any(|t| t.head() == Some("include")) {
            return false;
        }
        let fname = format!("{}.kbd", self.ctx.fresh("inc"));
        let moved: Vec<T> = self.items.splice(i..i + len, [l(vec![a("include"), a(&if r.chance(1, 3) { format!("\"{fname}\"") } else { fname.clone() })])]).collect();
        self.files.push((fname, moved));
        self.log.push("include".into());
        true
    }

    fn rw_platform(&mut self, r: &mut Rng) -> bool {
        if r.chance(1, 4) {
            // an item for another platform is dropped whatever it contains
            let pos = r.below(self.items.len() as u64 + 1) as usize;
            let junk = match r.below(3) {
                0 => rd("(deflayer nonsense a b c d e f g h 1 2 3 4 5 6 7 8 9)"),
                1 => rd("(defalias zz (no-such-action 1 2))"),
                _ => rd("(whatever (t! undefined-template) $x @y)"),
            };
            let pf = match r.below(3) {
                0 => rd("(win)"),
                1 => rd("(macos winiov2)"),
                _ => rd("(wintercept win macos)"),
            };
            self.items.insert(pos, l(vec![a("platform"), pf, junk]));
            self.log.push("platform-other".into());
            return true;
        }
        let i = r.below(self.items.len() as u64) as usize;
        if matches!(self.items[i].head(), Some("include") | Some("platform")) {
            return false;
        }
        let pf = match r.below(3) {
            0 => rd("(linux)"),
            1 => rd("(win linux)"),
            _ => rd("(macos linux wintercept)"),
        };
        let inner = self.items[i].clone();
        self.items[i] = l(vec![a("platform"), pf, inner]);
        self.log.push("platform".into());
        true
    }

    fn rw_layermap(&mut self, r: &mut Rng) -> bool {
        let cands: Vec<usize> = self
            .items
            .iter()
            .enumerate()
            .filter(|(_, t)| {
                t.head() == Some("deflayer")
                    && t.list().unwrap().len() == self.ctx.src.len() + 2
                    && !t.list().unwrap().iter().any(|x| matches!(x.head(), Some("t!") | Some("template-expand")))
            })
            .map(|(i, _)| i)
            .collect();
        if cands.is_empty() {
            return false;
        }
        let i = cands[r.below(cands.len() as u64) as usize];
        let v = self.items[i].list().unwrap().clone();
        let acts: Vec<T> = v[2..].to_vec();
        let mut pairs: Vec<(T, T)> = self.ctx.src.iter().map(|k| a(k)).zip(acts.iter().cloned()).collect();
        let mode = r.below(5);
        let mut extra: Option<(T, T)> = None;
        match mode {
            0 => {}
            1 => {
                // keys mapped to the transparent action may be left out: the default fill is Trans,
                // unless block-unmapped-keys turns the default into NoOp
                if !self.ctx.block_unmapped {
                    pairs.retain(|p| p.1 != a("_"));
                }
            }
            2 | 3 => {
                // `_` = every defsrc key not mentioned
                let d = acts[r.below(acts.len() as u64) as usize].clone();
                pairs.retain(|p| p.1 != d);
                extra = Some((a("_"), d));
            }
            _ => {
                if self.ctx.process_unmapped && !self.ctx.block_unmapped {
                    pairs.retain(|p| p.1 != a("_"));
                    extra = Some((a(if r.chance(1, 2) { "___" } else { "__" }), a("_")));
                    if extra.as_ref().unwrap().0 == a("__") {
                        // `__` leaves defsrc keys alone: they get the default fill, also Trans
                    }
                }
            }
        }
        // order of pairs is irrelevant
        for _ in 0..pairs.len() {
            let x = r.below(pairs.len().max(1) as u64) as usize;
            let y = r.below(pairs.len().max(1) as u64) as usize;
            if !pairs.is_empty() {
                pairs.swap(x, y);
            }
        }
        if let Some(e) = extra {
            let pos = r.below(pairs.len() as u64 + 1) as usize;
            pairs.insert(pos, e);
        }
        let mut nv = vec![a("deflayermap"), v[1].clone()];
        for (k, x) in pairs {
            nv.push(k);
            nv.push(x);
        }
        self.items[i] = l(nv);
        self.log.push(format!("layermap{mode}"));
        true
    }

    fn random(&mut self, r: &mut Rng) -> bool {
        match r.below(15) {
            0..=2 => self.rw_alias(r),
            3..=5 => self.rw_var(r),
            6..=8 => self.rw_template(r),
            9 => self.rw_template_dispatch(r),
            10 => self.rw_include(r),
            11 => self.rw_platform(r),
            12 => self.rw_template_items(r),
            _ => self.rw_layermap(r),
        }
    }
}

// ------------------------------------------------------------------------------------ negative cases

/// deliberately NOT neutral rewrites: the comparison must be able to tell
fn negative(r: &mut Rng, g: &Gen) -> Option<(Vec<T>, Vec<(String, Vec<T>)>, String)> {
    let mut items = g.items.clone();
    let files = vec![];
    let what;
    match r.below(7) {
        0 => {
            // variable in defsrc (bypass site: parse_defsrc matches SExpr::Atom directly)
            let i = items.iter().position(|t| t.head() == Some("defsrc"))?;
            let k = g.ctx.src[0].clone();
            if let T::L(v) = &mut items[i] {
                v[1] = a("$srcvar");
            }
            items.push(l(vec![a("defvar"), a("srcvar"), a(&k)]));
            what = "var-in-defsrc";
        }
        1 => {
            // alias defined after the alias that uses it
            let i = items.iter().position(|t| t.head() == Some("deflayer"))?;
            let e = items[i].list()?[2].clone();
            if let T::L(v) = &mut items[i] {
                v[2] = a("@first");
            }
            items.push(l(vec![a("defalias"), a("first"), a("@second")]));
            items.push(l(vec![a("defalias"), a("second"), e]));
            what = "alias-after-use";
        }
        2 => {
            // the layer is only there on another platform
            let i = items.iter().position(|t| matches!(t.head(), Some("deflayer") | Some("deflayermap")))?;
            let inner = items[i].clone();
            items[i] = l(vec![a("platform"), rd("(win macos)"), inner]);
            what = "platform-inactive";
        }
        3 => {
            // deflayermap whose default differs from what the deflayer said
            let i = items.iter().position(|t| t.head() == Some("deflayer") && t.list().unwrap().len() == g.ctx.src.len() + 2)?;
            let v = items[i].list()?.clone();
            let mut nv = vec![a("deflayermap"), v[1].clone()];
            for (k, x) in g.ctx.src.iter().zip(v[2..].iter()).skip(1) {
                nv.push(a(k));
                nv.push(x.clone());
            }
            let wrong = if v[2] == a("f13") { a("g") } else { a("f13") };
            nv.push(a("_"));
            nv.push(wrong);
            items[i] = l(nv);
            what = "layermap-wrong-default";
        }
        4 => {
            // template arguments swapped
            let i = items.iter().position(|t| t.head() == Some("deflayer"))?;
            let v = items[i].list()?.clone();
            // two different plain keys (different texts can be the same action, e.g. layer-toggle and
            // layer-while-held are synonyms)
            let plain = |t: &T| t.atom().is_some_and(|s| NONMOD.contains(&s));
            if v.len() < 4 || v[2] == v[3] || !plain(&v[2]) || !plain(&v[3]) {
                return None;
            }
            let mut nv = v[..2].to_vec();
            nv.push(l(vec![a("t!"), a("swap"), v[3].clone(), v[2].clone()]));
            nv.extend(v[4..].iter().cloned());
            items[i] = l(nv);
            items.insert(0, rd("(deftemplate swap (x y) $x $y)"));
            what = "template-args-swapped";
        }
        5 => {
            // variable as a defcfg value (bypass site: defcfg is read before defvar, without variables)
            items.retain(|t| t.head() != Some("defcfg"));
            let mut orig_like = g.items.clone();
            orig_like.retain(|t| t.head() != Some("defcfg"));
            if orig_like.len() != g.items.len() {
                return None; // keep the original as generated: only configurations without defcfg
            }
            items.push(rd("(defcfg process-unmapped-keys $pu)"));
            items.push(rd("(defvar pu no)"));
            what = "var-in-defcfg";
        }
        _ => {
            // variable as an alias name (bypass site: read_alias_name_action_pairs)
            let i = items.iter().position(|t| t.head() == Some("deflayer"))?;
            let e = items[i].list()?[2].clone();
            if let T::L(v) = &mut items[i] {
                v[2] = a("@named");
            }
            items.push(rd("(defvar nm named)"));
            items.push(l(vec![a("defalias"), a("$nm"), e]));
            what = "var-as-alias-name";
        }
    }
    Some((items, files, what.to_string()))
}

// ------------------------------------------------------------------------------------ histories

fn gen_history(r: &mut Rng, ctx: &Ctx, len: usize) -> Vec<String> {
    let mut keys: Vec<String> = ctx.src.clone();
    keys.push("g".into()); // usually unmapped
    let mut down: Vec<String> = vec![];
    let mut h = vec![];
    for _ in 0..len {
        match r.below(10) {
            0..=3 => {
                let k = keys[r.below(keys.len() as u64) as usize].clone();
                if !down.contains(&k) {
                    h.push(format!("p:{k}"));
                    down.push(k);
                }
            }
            4..=6 => {
                if !down.is_empty() {
                    let i = r.below(down.len() as u64) as usize;
                    let k = down.remove(i);
                    h.push(format!("r:{k}"));
                }
            }
            _ => h.push(format!("t:{}", *r.pick(&[1u64, 5, 20, 60, 120, 210, 320, 600]))),
        }
    }
    for k in down {
        h.push(format!("r:{k}"));
        h.push("t:10".into());
    }
    h.push("t:1200".into());
    h
}

// ------------------------------------------------------------------------------------ case lines

fn case_line(kind: &str, orig: &[T], rew: &[T], files: &[(String, Vec<T>)], hist: &[String], note: &str) -> String {
    let mut o: Vec<String> = vec!["C16".into(), kind.into(), "N".into(), NKEYS.to_string(), "K".into(), KEYS.len().to_string()];
    for k in KEYS {
        let code = u16::from(str_to_oscode(k).unwrap());
        o.push(enc(k));
        o.push(code.to_string());
        o.push(if code >= 256 { "1".into() } else { "0".into() });
    }
    o.push("O".into());
    tok_forest(orig, &mut o);
    o.push("R".into());
    tok_forest(rew, &mut o);
    o.push("F".into());
    o.push(files.len().to_string());
    for (n, f) in files {
        o.push(enc(n));
        tok_forest(f, &mut o);
    }
    o.push("H".into());
    o.extend(hist.iter().cloned());
    o.push("#".into());
    o.push(enc(note));
    o.join(" ")
}

fn handmade() -> Vec<(&'static str, Vec<&'static str>, Vec<&'static str>, Vec<(&'static str, Vec<&'static str>)>, &'static str)> {
    // (kind, original items, rewritten items, files, history)
    vec![
        (
            "pos",
            vec!["(defsrc a b)", "(deflayer l0 (tap-hold 200 200 a lsft) b)"],
            vec!["(defvar t 200)", "(defsrc a b)", "(defalias th (tap-hold $t $t a lsft))", "(deflayer l0 @th b)"],
            vec![],
            "p:a t:50 r:a t:300 p:a t:300 p:b t:10 r:b r:a t:500",
        ),
        (
            "pos",
            vec!["(defsrc a b)", "(deflayer l0 (tap-hold 200 200 a lsft) b)"],
            vec!["(defvar t 200 th (tap-hold $t $t a lsft))", "(defsrc a b)", "(deflayer l0 $th b)"],
            vec![],
            "p:a t:50 r:a t:300 p:a t:300 p:b t:10 r:b r:a t:500",
        ),
        (
            "pos",
            vec!["(defsrc a b)", "(deflayer l0 (tap-hold 300 100 a lsft) b)"],
            vec!["(defvar tap-timeout 100)", "(deftemplate th (hold-timeout tap-timeout) (tap-hold $tap-timeout $hold-timeout a lsft))", "(defsrc a b)", "(deflayer l0 (t! th $tap-timeout 300) b)"],
            vec![],
            "p:a t:150 r:a t:50 p:a t:350 r:a t:50 p:b t:10 r:b t:300",
        ),
        (
            "pos",
            vec!["(defsrc a b)", "(deflayer l0 (multi (tap-hold 200 200 a lsft) (macro 200)) b)"],
            vec!["(defvar k 200 l (tap-hold $k $k a lsft) r (macro $k) both (multi $l $r))", "(defsrc a b)", "(deflayer l0 $both b)"],
            vec![],
            "p:a t:50 r:a t:300 p:a t:300 p:b t:10 r:b r:a t:500",
        ),
        (
            "pos",
            vec!["(defsrc a b)", "(deflayer l0 (macro a 10 b) (multi lsft c))"],
            vec!["(deftemplate m (x) (macro $x 10 b))", "(defsrc a b)", "(deflayermap l0 b (multi lsft c) a (t! m a))"],
            vec![],
            "p:a t:50 r:a t:300 p:b t:10 r:b t:500",
        ),
        (
            "pos",
            vec!["(defsrc a b)", "(deflayer l0 1 2)"],
            vec!["(include x.kbd)", "(platform (linux) (deflayer l0 1 2))"],
            vec![("x.kbd", vec!["(defsrc a b)"])],
            "p:a t:50 r:a p:b r:b t:500",
        ),
        // an include of a file that does not exist is rejected wherever the include stands (aims at the
        // "file is not known" answer of the file provider - cfg/mod.rs verif_expand_pipeline and
        // expand_includes - which no generated rewrite produces: rw_include always adds the file)
        (
            "posrej",
            vec!["(defsrc a b)", "(deflayer l0 1 2)", "(include nofile.kbd)"],
            vec!["(include x.kbd)", "(include nofile.kbd)", "(platform (linux) (deflayer l0 1 2))"],
            vec![("x.kbd", vec!["(defsrc a b)"])],
            "p:a t:50 r:a t:500",
        ),
        (
            "posrej",
            vec!["(include nofile.kbd)", "(defsrc a b)", "(deflayer l0 1 2)"],
            vec!["(deftemplate src () (defsrc a b))", "(include \"nofile.kbd\")", "(t! src)", "(deflayer l0 1 2)"],
            vec![],
            "p:a t:50 r:a t:500",
        ),
        // finding D2: concat inside a template is evaluated with an empty variable table
        (
            "pos",
            vec!["(defvar base S- shifted (concat $base a))", "(defsrc a)", "(deflayer l0 $shifted)"],
            vec!["(deftemplate mk (nm) (defvar $nm (concat $base a)))", "(defvar base S-)", "(t! mk shifted)", "(defsrc a)", "(deflayer l0 $shifted)"],
            vec![],
            "p:a t:50 r:a t:500 #D2",
        ),
        // finding D1: an expansion nested in a template body is also performed inside the deftemplate
        // item itself, on the unsubstituted parameter
        (
            "pos",
            vec!["(deftemplate outer (x) (if-not-equal $x ok (if-equal)) a)", "(defsrc a)", "(deflayer l0 (t! outer ok))"],
            vec![
                "(deftemplate inner (y) (if-not-equal $y ok (if-equal)))",
                "(deftemplate outer (x) (t! inner $x) a)",
                "(defsrc a)",
                "(deflayer l0 (t! outer ok))",
            ],
            vec![],
            "p:a t:50 r:a t:500 #D1",
        ),
        // finding D3: the ban on the transparent action inside defchordsv2 is not applied to an alias
        (
            "posrej",
            vec!["(defcfg concurrent-tap-hold yes)", "(defsrc a b)", "(deflayer l0 a b)", "(defchordsv2 (a b) (multi _ c) 200 all-released ())"],
            vec![
                "(defcfg concurrent-tap-hold yes)",
                "(defsrc a b)",
                "(deflayer l0 a b)",
                "(defalias m (multi _ c))",
                "(defchordsv2 (a b) @m 200 all-released ())",
            ],
            vec![],
            "p:a t:50 r:a t:500 #D3",
        ),
    ]
}

pub fn gen(tier: &str, seed: u64) -> Vec<String> {
    let mut r = Rng::new(seed ^ 0xC16);
    let mut out = vec![];
    for (kind, o, rw, fs, h) in handmade() {
        let o: Vec<T> = o.iter().map(|s| rd(s)).collect();
        let rw: Vec<T> = rw.iter().map(|s| rd(s)).collect();
        let fs: Vec<(String, Vec<T>)> = fs.iter().map(|(n, v)| (n.to_string(), v.iter().map(|s| rd(s)).collect())).collect();
        let (h, tag) = h.split_once('#').unwrap_or((h, "handmade"));
        let h: Vec<String> = h.split_whitespace().map(|s| s.to_string()).collect();
        out.push(case_line(kind, &o, &rw, &fs, &h, tag));
    }
    // actions that are resolved through the position of the pressed key (`_`, use-defsrc) at every
    // nesting position of a defchordsv2 action: written out and named by an alias must be treated alike
    for shape in [
        "_", "use-defsrc", "(multi x _)", "(multi x use-defsrc)", "(tap-hold 200 200 _ x)", "(tap-hold 200 200 x _)",
        "(tap-hold-release 200 200 x use-defsrc)", "(tap-hold-press-timeout 200 300 x y _)", "(tap-hold-release-timeout 200 300 x y _)",
        "(tap-hold-release-timeout 200 300 x y use-defsrc)", "(tap-hold-release-timeout 200 300 _ y z)", "(tap-hold-release-keys 200 300 x _ (c))",
        "(fork _ x (lsft))", "(fork x use-defsrc (lsft))", "(switch () _ break)", "(switch ((key-history a 1)) x break () use-defsrc break)",
        "(tap-dance 100 (x _))", "(tap-dance-eager 100 (use-defsrc x))", "(multi lsft (tap-hold-press-timeout 200 300 x y (multi z _)))",
        "(tap-hold-release-timeout 200 300 x y z)", "(multi x y)",
    ] {
        let direct = vec![
            rd("(defcfg concurrent-tap-hold yes)"),
            rd("(defsrc a b)"),
            rd("(deflayer l0 a b)"),
            rd(&format!("(defchordsv2 (a b) {shape} 200 all-released ())")),
        ];
        let aliased = vec![
            rd("(defcfg concurrent-tap-hold yes)"),
            rd("(defsrc a b)"),
            rd("(deflayer l0 a b)"),
            rd(&format!("(defalias m {shape})")),
            rd("(defchordsv2 (a b) @m 200 all-released ())"),
        ];
        let h: Vec<String> = "p:a t:10 p:b t:500 r:a r:b t:100".split_whitespace().map(|s| s.to_string()).collect();
        let kind = if shape.contains('_') || shape.contains("use-defsrc") { "posrej" } else { "pos" };
        out.push(case_line(kind, &direct, &aliased, &[], &h, "chordsv2-positional"));
    }
    let n = if tier == "thorough" { 120000 } else { 12000 };
    let mut i = 0;
    let mut attempts = 0;
    while i < n && attempts < 20 * n {
        attempts += 1;
        let rich = i % 3 != 0;
        let mut g = gen_config(&mut r, rich);
        // the original should be a configuration kanata accepts; a few rejected ones are kept
        // (the rewritten one must then be rejected too)
        let accepted = cfg::new_from_str(&cfg_text(&g.items), Default::default()).is_ok();
        if !accepted && !r.chance(1, 12) {
            continue;
        }
        i += 1;
        let hist = gen_history(&mut r, &g.ctx, if tier == "thorough" { 60 } else { 36 });
        if accepted && i % 12 == 11 {
            if let Some((items, files, what)) = negative(&mut r, &g) {
                out.push(case_line("neg", &g.items, &items, &files, &hist, &what));
                continue;
            }
        }
        // the "original" may already contain indirection
        let mut ctx = g.ctx.clone();
        let mut base = Rw { items: g.items.clone(), files: vec![], ctx: &mut ctx, log: vec![] };
        if r.chance(1, 3) {
            for _ in 0..r.range(1, 2) {
                base.random(&mut r);
            }
        }
        let orig = base.items.clone();
        let orig_files = base.files.clone();
        let nrw = match i % 4 {
            0 => 1,
            1 => 2,
            _ => r.range(1, 6),
        };
        let mut done = 0;
        let mut tries = 0;
        while done < nrw && tries < 20 {
            tries += 1;
            if base.random(&mut r) {
                done += 1;
            }
        }
        let log = base.log.join(",");
        let rew = base.items.clone();
        let files = base.files.clone();
        // the original only sees the files it had; they are a prefix of the final file list and
        // names are fresh, so one map serves both
        let _ = orig_files;
        g.ctx = ctx;
        out.push(case_line(if accepted { "pos" } else { "posrej" }, &orig, &rew, &files, &hist, &log));
    }
    out
}

// ------------------------------------------------------------------------------------ eval

fn sexpr_text(e: &SExpr, out: &mut String) {
    match e {
        SExpr::Atom(a) => out.push_str(&a.t),
        SExpr::List(l) => {
            out.push('(');
            for (i, x) in l.t.iter().enumerate() {
                if i > 0 {
                    out.push(' ');
                }
                sexpr_text(x, out);
            }
            out.push(')');
        }
    }
}

fn toplevels_text(v: &[cfg::sexpr::TopLevel]) -> String {
    let mut out = String::new();
    for (i, tl) in v.iter().enumerate() {
        if i > 0 {
            out.push(' ');
        }
        out.push('(');
        for (j, x) in tl.t.iter().enumerate() {
            if j > 0 {
                out.push(' ');
            }
            sexpr_text(x, &mut out);
        }
        out.push(')');
    }
    out
}

/// the resolved view through the REAL accessors
fn view(e: &SExpr, vars: &FxHashMap<String, SExpr>, out: &mut String) {
    if let Some(a) = e.atom(Some(vars)) {
        out.push_str(a);
    } else if let Some(l) = e.list(Some(vars)) {
        out.push('(');
        for (i, x) in l.iter().enumerate() {
            if i > 0 {
                out.push(' ');
            }
            view(x, vars, out);
        }
        out.push(')');
    } else {
        out.push_str("<neither>");
    }
}

fn sexpr_eq_tree(e: &SExpr, t: &T) -> bool {
    match (e, t) {
        (SExpr::Atom(a), T::A(s)) => &a.t == s,
        (SExpr::List(l), T::L(v)) => l.t.len() == v.len() && l.t.iter().zip(v.iter()).all(|(x, y)| sexpr_eq_tree(x, y)),
        _ => false,
    }
}

fn file_map(files: &[(String, Vec<T>)]) -> FxHashMap<String, String> {
    files.iter().map(|(n, v)| (n.clone(), cfg_text(v))).collect()
}

fn exp_and_view(text: &str, files: &[(String, Vec<T>)]) -> (String, String) {
    match cfg::verif_expand_pipeline(text, file_map(files)) {
        Err(_) => ("rej".into(), "rej".into()),
        Ok(tls) => {
            let exp = toplevels_text(&tls);
            let view_s = match cfg::verif_parse_vars(&tls) {
                Err(_) => "rej".to_string(),
                Ok(vars) => {
                    let mut out = String::new();
                    for (i, tl) in tls.iter().enumerate() {
                        if i > 0 {
                            out.push(' ');
                        }
                        out.push('(');
                        for (j, x) in tl.t.iter().enumerate() {
                            if j > 0 {
                                out.push(' ');
                            }
                            view(x, &vars, &mut out);
                        }
                        out.push(')');
                    }
                    out
                }
            };
            (exp, view_s)
        }
    }
}

/// the diagnostic's own message (`help:` of the rendered report), whitespace collapsed
fn help_of(report: &str) -> String {
    let txt = match report.find("help:") {
        Some(i) => &report[i + 5..],
        None => report,
    };
    let txt = txt.split("For more info").next().unwrap_or(txt);
    let words: Vec<&str> = txt.split_whitespace().collect();
    enc(&words.join("_").chars().take(90).collect::<String>())
}

struct Digest {
    parts: Vec<(&'static str, String)>,
}

fn digest(c: &cfg::Cfg) -> Digest {
    let mut parts = vec![];
    parts.push(("layers", format!("{:?}", c.layout.b().layers)));
    parts.push(("src_keys", format!("{:?}", c.layout.b().src_keys)));
    let mut ko: Vec<String> = vec![];
    for (i, m) in c.key_outputs.iter().enumerate() {
        let mut es: Vec<String> = m
            .iter()
            .map(|(k, v)| {
                let mut v: Vec<u16> = v.iter().map(|o| u16::from(*o)).collect();
                v.sort();
                format!("{}:{:?}", u16::from(*k), v)
            })
            .collect();
        es.sort();
        ko.push(format!("L{i}{{{}}}", es.join(",")));
    }
    parts.push(("key_outputs", ko.join(" ")));
    let mut mk: Vec<u16> = c.mapped_keys.iter().map(|o| u16::from(*o)).collect();
    mk.sort();
    parts.push(("mapped_keys", format!("{mk:?}")));
    parts.push(("overrides", format!("{:?}", c.overrides)));
    parts.push(("sequences", format!("{:?}", c.sequences)));
    let mut fk: Vec<String> = c.fake_keys.iter().map(|(k, v)| format!("{k}={v}")).collect();
    fk.sort();
    parts.push(("fake_keys", fk.join(",")));
    parts.push(("options", format!("{:?}", c.options)));
    parts.push(("layer_names", c.layer_info.iter().map(|l| l.name.clone()).collect::<Vec<_>>().join(",")));
    parts.push(("switch_max_key_timing", c.switch_max_key_timing.to_string()));
    parts.push(("chords_v2", format!("{:?}", c.layout.b().chords_v2.is_some())));
    parts
        .iter_mut()
        .for_each(|p| p.1 = strip_addresses(&p.1));
    Digest { parts }
}

/// pointer values never carry meaning
fn strip_addresses(s: &str) -> String {
    let b = s.as_bytes();
    let mut o = String::with_capacity(s.len());
    let mut i = 0;
    while i < b.len() {
        if b[i] == b'0' && i + 1 < b.len() && b[i + 1] == b'x' {
            let mut j = i + 2;
            while j < b.len() && b[j].is_ascii_hexdigit() {
                j += 1;
            }
            if j - i >= 8 {
                o.push_str("0xPTR");
                i = j;
                continue;
            }
        }
        o.push(b[i] as char);
        i += 1;
    }
    o
}

fn run_history(text: &str, files: &[(String, Vec<T>)], hist: &[String]) -> Result<Vec<String>, String> {
    let mut k = Kanata::new_from_str(text, file_map(files)).map_err(|e| format!("{e:?}"))?;
    for ev in hist {
        let Some((kind, val)) = ev.split_once(':') else { continue };
        match kind {
            "t" => {
                let n: u128 = val.parse().unwrap_or(1);
                k.tick_ms(n, &None).map_err(|e| format!("{e:?}"))?;
            }
            "p" | "r" => {
                let code = str_to_oscode(val).ok_or("bad key")?;
                k.handle_input_event(&KeyEvent { code, value: if kind == "p" { KeyValue::Press } else { KeyValue::Release } })
                    .map_err(|e| format!("{e:?}"))?;
            }
            _ => {}
        }
    }
    Ok(k.kbd_out.outputs.events.clone())
}

pub fn eval(line: &str) -> String {
    let mut t = Toks { v: line.split_whitespace().collect(), i: 0 };
    if t.next() != "C16" {
        return "harness-error not a C16 line".into();
    }
    let _kind = t.next();
    t.next(); // N
    t.next();
    t.next(); // K
    let nk: usize = t.next().parse().unwrap_or(0);
    for _ in 0..nk {
        let name = dec(t.next());
        let code: u16 = t.next().parse().unwrap_or(0);
        let _b = t.next();
        // the table in the case line must be what the real function says
        if str_to_oscode(&name).map(u16::from) != Some(code) {
            return format!("harness-error key table {name}");
        }
    }
    t.next(); // O
    let orig = t.forest();
    t.next(); // R
    let rew = t.forest();
    t.next(); // F
    let nf: usize = t.next().parse().unwrap_or(0);
    let mut files = vec![];
    for _ in 0..nf {
        let name = dec(t.next());
        files.push((name, t.forest()));
    }
    t.next(); // H
    let mut hist = vec![];
    loop {
        let x = t.next();
        if x.is_empty() || x == "#" {
            break;
        }
        hist.push(x.to_string());
    }
    let text_o = cfg_text(&orig);
    let text_r = cfg_text(&rew);
    // the text must read back as the trees the model gets
    let file_texts: Vec<(String, Vec<T>)> = files.iter().map(|(_, v)| (cfg_text(v), v.clone())).collect();
    for (txt, trees) in [(&text_o, &orig), (&text_r, &rew)].into_iter().chain(file_texts.iter().map(|(t, v)| (t, v))) {
        match cfg::sexpr::parse(txt, "roundtrip") {
            Ok(tls) => {
                if tls.len() != trees.len()
                    || !tls.iter().zip(trees.iter()).all(|(tl, t)| match t {
                        T::L(v) => tl.t.len() == v.len() && tl.t.iter().zip(v.iter()).all(|(x, y)| sexpr_eq_tree(x, y)),
                        _ => false,
                    })
                {
                    return "harness-error roundtrip".into();
                }
            }
            Err(_) => return "harness-error roundtrip-parse".into(),
        }
    }
    let (exp_o, view_o) = exp_and_view(&text_o, &files);
    let (exp_r, view_r) = exp_and_view(&text_r, &files);

    // paired parses
    let co = cfg::new_from_str(&text_o, file_map(&files)).map(|c| digest(&c));
    let cr = cfg::new_from_str(&text_r, file_map(&files)).map(|c| digest(&c));
    let verdict = match (&co, &cr) {
        (Err(_), Err(_)) => "equal:both-rejected".to_string(),
        (Ok(_), Err(e)) => format!("differ:only-original-accepted:{}", help_of(&format!("{e:?}"))),
        (Err(e), Ok(_)) => format!("differ:only-rewritten-accepted:{}", help_of(&format!("{e:?}"))),
        (Ok(d1), Ok(d2)) => {
            let mut diff = None;
            for (p1, p2) in d1.parts.iter().zip(d2.parts.iter()) {
                if p1.1 != p2.1 {
                    diff = Some(p1.0);
                    break;
                }
            }
            match diff {
                Some(w) => format!("differ:{w}"),
                None => {
                    let run = |text: &str| -> Result<Vec<String>, String> {
                        let (t2, f2, h2) = (text.to_string(), files.clone(), hist.clone());
                        match std::panic::catch_unwind(move || run_history(&t2, &f2, &h2)) {
                            Ok(r) => r,
                            Err(_) => Err("panic".into()),
                        }
                    };
                    let to = run(&text_o);
                    let tr = run(&text_r);
                    match (to, tr) {
                        (Ok(x), Ok(y)) => {
                            if x == y {
                                format!("equal:accepted:{}", x.len())
                            } else {
                                "differ:trace".to_string()
                            }
                        }
                        (Err(x), Err(y)) if x == y => format!("equal:accepted:run-error-{}", enc(&x.chars().take(20).collect::<String>())),
                        (Err(_), Err(_)) => "differ:run-errors".to_string(),
                        _ => "differ:run-error".to_string(),
                    }
                }
            }
        }
    };
    format!("exp {exp_o} && {exp_r} | view {view_o} && {view_r} | pair {verdict}")
}

/// debugging aid: `kvharness text C16 < case` prints both configuration texts
pub fn show(line: &str) -> String {
    let mut t = Toks { v: line.split_whitespace().collect(), i: 0 };
    while t.next() != "O" {}
    let orig = t.forest();
    t.next();
    let rew = t.forest();
    t.next();
    let nf: usize = t.next().parse().unwrap_or(0);
    let mut s = format!("--- original\n{}\n--- rewritten\n{}\n", cfg_text(&orig), cfg_text(&rew));
    let mut files = vec![];
    for _ in 0..nf {
        let name = dec(t.next());
        let f = t.forest();
        s.push_str(&format!("--- file {name}\n{}\n", cfg_text(&f)));
        files.push((name, f));
    }
    if let Err(e) = cfg::new_from_str(&cfg_text(&orig), file_map(&files)) {
        s.push_str(&format!("--- original rejected: {e:?}\n"));
    }
    if let Err(e) = cfg::new_from_str(&cfg_text(&rew), file_map(&files)) {
        s.push_str(&format!("--- rewritten rejected: {e:?}\n"));
    }
    s
}
