//! C06 generator: one-shot keys (four end variants) whose inner action is a marker modifier key, a
//! marker output chord, or layer-while-held of a layer that maps the plain keys to distinct marker
//! keys; plus two plain keys.  Exhaustive physically consistent schedules with gaps around the
//! one-shot timeout, structured stacking families, and random long histories including more than
//! 16 stacked one-shot keys.  eval / expand are the shared `lay::eval` / `lay::expand`.
use crate::cfggen::*;
use crate::lay::{mk_line, HEv};
use crate::rng::Rng;

#[derive(Clone, Copy)]
pub struct Os {
    pub kind: usize,    // 0 key, 1 output chord, 2 layer-while-held
    pub variant: usize, // 0 press, 1 release, 2 press-pcancel, 3 release-pcancel
    pub t: u32,
}

const VARIANT: [&str; 4] = ["one-shot-press", "one-shot-release", "one-shot-press-pcancel", "one-shot-release-pcancel"];
const KEY_M: [&str; 3] = ["lsft", "rsft", "lmet"];
const CHORD_M: [&str; 3] = ["C-lalt", "RC-ralt", "M-rmet"];

fn os_text(os: &Os, pos: usize, layer_used: &mut bool) -> String {
    let v = VARIANT[os.variant];
    let t = os.t;
    match os.kind {
        0 => format!("({v} {t} {})", KEY_M[pos]),
        1 => format!("({v} {t} {})", CHORD_M[pos]),
        _ => {
            *layer_used = true;
            format!("({v} {t} (layer-while-held l1))")
        }
    }
}

/// `(defsrc a b c d e)`: positions a b c hold the one-shot keys (plain b / c when fewer), d e are plain.
pub fn cfg_text(oss: &[Os], red: Option<u16>) -> String {
    let mut s = String::from("(defcfg");
    if let Some(d) = red {
        s.push_str(&format!(" rapid-event-delay {d}"));
    }
    s.push_str(")\n(defsrc a b c d e)\n(deflayer l0");
    let mut layer_used = false;
    for pos in 0..3 {
        s.push(' ');
        if pos < oss.len() {
            s.push_str(&os_text(&oss[pos], pos, &mut layer_used));
        } else {
            s.push_str(["a", "b", "c"][pos]);
        }
    }
    s.push_str(" d e)\n(deflayer l1 _ _ _ x y)\n");
    s
}

const MANY: [&str; 18] = ["a", "b", "c", "f", "g", "h", "i", "j", "k", "l", "m", "n", "o", "p", "q", "r", "s", "t"];

/// 18 one-shot keys of one marker modifier each (repeating the 8 modifiers) and the plain keys d e.
fn many_cfg(variant: usize, t: u32, red: Option<u16>) -> String {
    let mods = ["lsft", "rsft", "lctl", "rctl", "lalt", "ralt", "lmet", "rmet"];
    let mut s = String::from("(defcfg");
    if let Some(d) = red {
        s.push_str(&format!(" rapid-event-delay {d}"));
    }
    s.push_str(")\n(defsrc");
    for k in MANY {
        s.push(' ');
        s.push_str(k);
    }
    s.push_str(" d e)\n(deflayer l0");
    for (i, _) in MANY.iter().enumerate() {
        s.push_str(&format!(" ({} {t} {})", VARIANT[variant], mods[i % 8]));
    }
    s.push_str(" d e)\n");
    s
}

fn tap(h: &mut Vec<HEv>, k: u16, hold: u32, after: u32) {
    h.push(HEv::Press(0, k));
    if hold > 0 {
        h.push(HEv::Tick(hold));
    }
    h.push(HEv::Release(0, k));
    if after > 0 {
        h.push(HEv::Tick(after));
    }
}

/// Family (6), aimed at keyberon/src/layout.rs `do_action`: an output chord (`MultipleKeyCodes`,
/// e.g. `S-1`) pressed while a one-shot key is active (the repeat buffer is rebuilt from the one-shot
/// keys' codes plus the chord's), `Repeat` (`rpt-any`, which plays that buffer back), and
/// `OneShotIgnoreEventsTicks` (`one-shot-pause-processing`: presses inside the window neither
/// consume nor end the one-shot).
/// `(defsrc a b c d e f g)`: a, b one-shot keys (key / output chord), c = S-1, d plain, e = rpt-any,
/// f = (one-shot-pause-processing P), g = (multi (one-shot-pause-processing P) y).
fn chord_repeat_pause(r: &mut Rng, thorough: bool, lines: &mut Vec<String>) {
    let ks: Vec<u16> = ["a", "b", "c", "d", "e", "f", "g"].iter().map(|k| code(k)).collect();
    let (ka, kb, kc, kd, ke, kf, kg) = (ks[0], ks[1], ks[2], ks[3], ks[4], ks[5], ks[6]);
    for variant in 0..4 {
        for (ci, (t, p)) in [(10u32, 3u32), (500, 20), (10, 20)].into_iter().enumerate() {
            for red in [if (variant + ci) % 2 == 0 { None } else { Some(0u16) }] {
                let mut cfg = String::from("(defcfg");
                if let Some(d) = red {
                    cfg.push_str(&format!(" rapid-event-delay {d}"));
                }
                let v = VARIANT[variant];
                cfg.push_str(&format!(
                    ")\n(defsrc a b c d e f g)\n(deflayer l0 ({v} {t} lsft) ({v} {t} C-lalt) S-1 d rpt-any (one-shot-pause-processing {p}) (multi (one-shot-pause-processing {p}) y))\n"
                ));
                // one-shot, then the chord key / the plain key, then rpt-any
                for os in [ka, kb] {
                    for target in [kc, kd] {
                        for g1 in [0u32, 1, t - 1] {
                            for hold in [0u32, 2] {
                                let mut h = vec![];
                                tap(&mut h, os, 1, g1);
                                tap(&mut h, target, hold, 3);
                                tap(&mut h, ke, 1, 2);
                                tap(&mut h, ke, 1, 2);
                                h.push(HEv::Tick(t + 20));
                                lines.push(mk_line("LAY", false, &cfg, &h));
                            }
                        }
                    }
                    // both one-shot keys stacked, chord key while both are active, repeat while the
                    // second chord key press is still down
                    let mut h = vec![];
                    tap(&mut h, ka, 1, 1);
                    tap(&mut h, kb, 1, 1);
                    h.push(HEv::Press(0, kc));
                    h.push(HEv::Tick(2));
                    tap(&mut h, ke, 1, 1);
                    h.push(HEv::Release(0, kc));
                    h.push(HEv::Tick(2));
                    tap(&mut h, os, 1, 1);
                    tap(&mut h, ke, 1, 1);
                    h.push(HEv::Tick(t + 20));
                    lines.push(mk_line("LAY", false, &cfg, &h));
                    // one-shot, pause, a key inside / on the edge of / after the pause window, a second key
                    for pk in [kf, kg] {
                        for g in [0u32, 1, p - 1, p, p + 1] {
                            for target in [kc, kd] {
                                let mut h = vec![];
                                tap(&mut h, os, 1, 1);
                                tap(&mut h, pk, 1, g);
                                tap(&mut h, target, 1, 2);
                                tap(&mut h, kd, 1, 2);
                                tap(&mut h, ke, 1, 2);
                                h.push(HEv::Tick(t + 20));
                                lines.push(mk_line("LAY", false, &cfg, &h));
                            }
                        }
                    }
                }
                // the pause key pressed BEFORE the one-shot key (the window is armed although no
                // one-shot is active yet; it only counts down while one is)
                let mut h = vec![];
                tap(&mut h, kf, 1, 1);
                tap(&mut h, ka, 1, 1);
                tap(&mut h, kd, 1, p + 1);
                tap(&mut h, kd, 1, 2);
                h.push(HEv::Tick(t + 20));
                lines.push(mk_line("LAY", false, &cfg, &h));
                for _ in 0..(if thorough { 150 } else { 8 }) {
                    let n_ev = r.range(3, 16) as usize;
                    let h = consistent_history(r, &ks, n_ev, &[0, 1, 1, 2, p - 1, p, p + 1, t - 1, t], t + 20);
                    lines.push(mk_line("LAY", false, &cfg, &h));
                }
            }
        }
    }
}


// ---- t5 begin: families (7) and (8) -------------------------------------------------------------
/// Family (7): `one-shot-pause-processing` inside the oracle's fragment (base layer of one-shot keys,
/// plain keys and pause keys only), so that the "exactly the next key" oracle judges these runs:
/// `(defsrc a b d e f)`: a, b one-shot keys (key / output chord), d e plain, f = pause P.
/// The pause key long BEFORE the one-shot key (a window that ran out must not touch a later
/// one-shot), shortly before it, and while it is active at every offset around P.
fn pause_fragment(r: &mut Rng, thorough: bool, lines: &mut Vec<String>) {
    let ks: Vec<u16> = ["a", "b", "d", "e", "f"].iter().map(|k| code(k)).collect();
    let (ka, kb, kd, ke, kf) = (ks[0], ks[1], ks[2], ks[3], ks[4]);
    for variant in 0..4 {
        for (ci, (t, p)) in [(500u32, 50u32), (10, 3), (500, 20)].into_iter().enumerate() {
            let red = if (variant + ci) % 3 == 2 { Some(0u16) } else { None };
            let mut cfg = String::from("(defcfg");
            if let Some(d) = red {
                cfg.push_str(&format!(" rapid-event-delay {d}"));
            }
            let v = VARIANT[variant];
            cfg.push_str(&format!(
                ")\n(defsrc a b d e f)\n(deflayer l0 ({v} {t} lsft) ({v} {t} C-lalt) d e (one-shot-pause-processing {p}))\n"
            ));
            let tail = t + 200;
            for os in [ka, kb] {
                // pause, a gap, one-shot key, first key, second key
                for g0 in [0u32, 1, p + 1, p + 100, 1000] {
                    for g1 in [1u32, 9] {
                        for g2 in [2u32, 10, 100] {
                            let mut h = vec![];
                            tap(&mut h, kf, 1, g0);
                            tap(&mut h, os, 1, g1);
                            tap(&mut h, kd, 1, g2);
                            tap(&mut h, ke, 1, 2);
                            h.push(HEv::Tick(tail));
                            lines.push(mk_line("LAY", false, &cfg, &h));
                        }
                    }
                }
                // one-shot key, pause while it is active, keys inside / on the edge of / after the window
                for g in [0u32, 1, p - 1, p, p + 1, p + 80] {
                    let mut h = vec![];
                    tap(&mut h, os, 1, 1);
                    tap(&mut h, kf, 1, g);
                    tap(&mut h, kd, 1, 2);
                    tap(&mut h, ke, 1, 2);
                    h.push(HEv::Tick(tail));
                    lines.push(mk_line("LAY", false, &cfg, &h));
                }
            }
            for _ in 0..(if thorough { 200 } else { 10 }) {
                let n_ev = r.range(4, 14) as usize;
                let h = consistent_history(r, &ks, n_ev, &[0, 1, 1, 2, p - 1, p, p + 1, t - 1, t, t + p + 90], tail);
                lines.push(mk_line("LAY", false, &cfg, &h));
            }
        }
    }
}

/// Family (8): a one-shot activated by something that is not a key of the layer - a chords v2 chord
/// whose action is a one-shot key.  Its action reaches the layout through the action queue, not the
/// input queue, at every offset after the first following key of an earlier one-shot (so also inside
/// the few ticks in which that one-shot's release is outstanding).
/// `(defsrc a b c d e f)`: a, b one-shot keys (lsft / lctl), c d plain, chord (e f) = one-shot lalt.
fn chord_one_shot(r: &mut Rng, thorough: bool, lines: &mut Vec<String>) {
    let ks: Vec<u16> = ["a", "b", "c", "d", "e", "f"].iter().map(|k| code(k)).collect();
    let (ka, kb, kc, kd, ke, kf) = (ks[0], ks[1], ks[2], ks[3], ks[4], ks[5]);
    for variant in 0..4 {
        for (ci, t) in [500u32, 60].into_iter().enumerate() {
            let red = if (variant + ci) % 3 == 2 { Some(1u16) } else { None };
            let rel = if (variant + ci) % 2 == 0 { "first-release" } else { "all-released" };
            let mut cfg = String::from("(defcfg concurrent-tap-hold yes");
            if let Some(d) = red {
                cfg.push_str(&format!(" rapid-event-delay {d}"));
            }
            let v = VARIANT[variant];
            cfg.push_str(&format!(
                ")\n(defsrc a b c d e f)\n(deflayer l0 ({v} {t} lsft) ({v} {t} lctl) c d e f)\n(defchordsv2 (e f) ({v} {t} lalt) 35 {rel} ())\n"
            ));
            let tail = t + 300;
            for os in [ka, kb] {
                for g in [0u32, 1, 2, 3, 4, 5, 6, 7, 10, 40] {
                    for chord_gap in [0u32, 1] {
                        // one-shot key, first key c, the chord g ticks later, second key d
                        let mut h = vec![];
                        tap(&mut h, os, 10, 10);
                        h.push(HEv::Press(0, kc));
                        if g > 0 {
                            h.push(HEv::Tick(g));
                        }
                        h.push(HEv::Press(0, ke));
                        if chord_gap > 0 {
                            h.push(HEv::Tick(chord_gap));
                        }
                        h.push(HEv::Press(0, kf));
                        h.push(HEv::Tick(20));
                        h.push(HEv::Release(0, kc));
                        h.push(HEv::Release(0, ke));
                        h.push(HEv::Release(0, kf));
                        h.push(HEv::Tick(if t > 200 { 100 } else { 20 }));
                        tap(&mut h, kd, 10, 0);
                        h.push(HEv::Tick(tail));
                        lines.push(mk_line("LAY", false, &cfg, &h));
                    }
                }
                // the chord first, then the one-shot key, then two keys
                for g in [0u32, 1, 5, 40] {
                    let mut h = vec![];
                    h.push(HEv::Press(0, ke));
                    h.push(HEv::Press(0, kf));
                    h.push(HEv::Tick(10));
                    h.push(HEv::Release(0, ke));
                    h.push(HEv::Release(0, kf));
                    h.push(HEv::Tick(g));
                    tap(&mut h, os, 2, 3);
                    tap(&mut h, kc, 2, 12);
                    tap(&mut h, kd, 2, 2);
                    h.push(HEv::Tick(tail));
                    lines.push(mk_line("LAY", false, &cfg, &h));
                }
            }
            for _ in 0..(if thorough { 120 } else { 6 }) {
                let n_ev = r.range(4, 12) as usize;
                let h = consistent_history(r, &ks, n_ev, &[0, 1, 2, 5, 6, 12, 40], tail);
                lines.push(mk_line("LAY", false, &cfg, &h));
            }
        }
    }
}
/// Family (9): a key that does nothing as one of the following keys - `XX` in the base layer
/// (position g; the one-shot layer holds `_` there, so it is reached through a transparent entry while
/// a layer one-shot is active) and an unmapped position (z, with `block-unmapped-keys yes`).
/// `do_action`'s `NoOp` arm reports such a press to the one-shot state like every other key: it is
/// "the first following non-one-shot key".  Crafted: one-shot key, the XX key at every gap, then two
/// plain keys; exhaustive: every schedule over the one-shot key, the XX key and a plain key.
fn noop_following(thorough: bool, seed: u64, lines: &mut Vec<String>) {
    let (ka, kd, ke, kg, kz) = (code("a"), code("d"), code("e"), code("g"), code("z"));
    let mut ci = 0usize;
    for variant in 0..4 {
        for t in [3u32, 10, 500] {
            for red in [None, Some(0u16), Some(1)] {
                for kind in 0..3 {
                    ci += 1;
                    let mut layer_used = false;
                    let os = os_text(&Os { kind, variant, t }, 0, &mut layer_used);
                    let unmapped = ci % 4 == 0;
                    let mut cfg = String::from("(defcfg");
                    if let Some(d) = red {
                        cfg.push_str(&format!(" rapid-event-delay {d}"));
                    }
                    if unmapped {
                        cfg.push_str(" block-unmapped-keys yes");
                    }
                    cfg.push_str(&format!(")\n(defsrc a d e g)\n(deflayer l0 {os} d e XX)\n(deflayer l1 _ x y _)\n"));
                    let kx = if unmapped { kz } else { kg };
                    for g1 in [0u32, 1, t - 1] {
                        for g2 in [0u32, 1, 5, 6] {
                            for xhold in [0u32, 2] {
                                let mut h = vec![];
                                tap(&mut h, ka, 1, g1);
                                tap(&mut h, kx, xhold, g2);
                                tap(&mut h, kd, 2, 6);
                                tap(&mut h, ke, 2, 1);
                                h.push(HEv::Tick(t + 40));
                                lines.push(mk_line("LAY", false, &cfg, &h));
                            }
                        }
                    }
                    // the XX key held across the plain key (release variants: its release ends the one-shot)
                    let mut h = vec![];
                    tap(&mut h, ka, 1, 1);
                    h.push(HEv::Press(0, kx));
                    h.push(HEv::Tick(1));
                    h.push(HEv::Press(0, kd));
                    h.push(HEv::Tick(1));
                    h.push(HEv::Release(0, kx));
                    h.push(HEv::Tick(2));
                    h.push(HEv::Release(0, kd));
                    h.push(HEv::Tick(1));
                    tap(&mut h, ke, 2, 1);
                    h.push(HEv::Tick(t + 40));
                    lines.push(mk_line("LAY", false, &cfg, &h));
                    let small: Vec<u32> = vec![0, 1, t];
                    if thorough || ci % 6 == (seed as usize) % 6 {
                        for h in all_histories(&[ka, kx, kd], 3, &small, t + 40) {
                            lines.push(mk_line("LAY", false, &cfg, &h));
                        }
                    }
                    if (thorough && ci % 3 == (seed as usize) % 3) || ci % 36 == (seed as usize) % 36 {
                        for h in all_histories(&[ka, kx, kd], 4, &[0, t], t + 40) {
                            lines.push(mk_line("LAY", false, &cfg, &h));
                        }
                    }
                }
            }
        }
    }
}
// ---- t5 end ---------------------------------------------------------------------------------------

pub fn gen(tier: &str, seed: u64) -> Vec<String> {
    let mut r = Rng::new(seed ^ 0xC06);
    let thorough = tier == "thorough";
    let mut lines = vec![];
    if tier == "cov" || tier == "covt" {
        // only the families that were added to reach otherwise unexecuted code (debugging aid;
        // "covt" = their thorough-tier size)
        chord_repeat_pause(&mut r, tier == "covt", &mut lines);
        pause_fragment(&mut r, tier == "covt", &mut lines); // t5
        chord_one_shot(&mut r, tier == "covt", &mut lines); // t5
        noop_following(tier == "covt", seed, &mut lines); // t5
        return lines;
    }
    let (ka, kb, kc, kd, ke) = (code("a"), code("b"), code("c"), code("d"), code("e"));
    let ts = [3u32, 10, 500];
    let reds = [None, Some(0u16), Some(1)];

    // (1) lone one-shot key, every variant x T x delay x kind: held for j ticks around T, alone and
    //     followed by two plain keys at every pair of gaps
    for variant in 0..4 {
        for t in ts {
            for red in reds {
                for kind in 0..3 {
                    let cfg = cfg_text(&[Os { kind, variant, t }], red);
                    let gaps = [0u32, 1, t - 1, t, t + 1];
                    for j in gaps {
                        let mut h = vec![];
                        tap(&mut h, ka, j, t + 20);
                        lines.push(mk_line("LAY", false, &cfg, &h));
                        for g1 in gaps {
                            for g2 in if thorough { vec![0u32, 1, 2, 5, 6] } else { vec![0u32, 1, 5, 6] } {
                                for hold in if thorough { vec![0u32, 1, 7] } else { vec![if g2 == 0 { 7u32 } else { 0 }] } {
                                    let mut h = vec![];
                                    tap(&mut h, ka, j, g1);
                                    h.push(HEv::Press(0, kd));
                                    if g2 > 0 {
                                        h.push(HEv::Tick(g2));
                                    }
                                    h.push(HEv::Press(0, ke));
                                    if hold > 0 {
                                        h.push(HEv::Tick(hold));
                                    }
                                    h.push(HEv::Release(0, kd));
                                    h.push(HEv::Tick(1));
                                    h.push(HEv::Release(0, ke));
                                    h.push(HEv::Tick(t + 20));
                                    lines.push(mk_line("LAY", false, &cfg, &h));
                                }
                            }
                        }
                    }
                }
            }
        }
    }

    // (2) exhaustive schedules over one one-shot key and the two plain keys
    let mut ci = 0usize;
    for variant in 0..4 {
        for t in ts {
            for red in reds {
                for kind in 0..3 {
                    ci += 1;
                    let cfg = cfg_text(&[Os { kind, variant, t }], red);
                    let gaps: Vec<u32> = vec![0, 1, t - 1, t, t + 1];
                    let small: Vec<u32> = vec![0, 1, t];
                    // quick: one in 12 of the configurations gets the 3-event family with all
                    // gaps, one in 36 the 4-event family with gaps {0,1,T}; thorough: all / a third,
                    // and one in six the 5-event family with gaps {0,T}
                    let sel3 = thorough || (ci + variant) % 12 == (seed as usize) % 12;
                    let sel4 = if thorough { (ci + variant) % 3 == (seed as usize) % 3 } else { (ci + variant) % 36 == (seed as usize) % 36 };
                    for n in 1..=2 {
                        for h in all_histories(&[ka, kd, ke], n, &gaps, t + 20) {
                            lines.push(mk_line("LAY", false, &cfg, &h));
                        }
                    }
                    if sel3 {
                        for h in all_histories(&[ka, kd, ke], 3, &gaps, t + 20) {
                            lines.push(mk_line("LAY", false, &cfg, &h));
                        }
                    }
                    if sel4 {
                        for h in all_histories(&[ka, kd, ke], 4, &small, t + 20) {
                            lines.push(mk_line("LAY", false, &cfg, &h));
                        }
                    }
                    if thorough && (ci % 6 == (seed as usize) % 6) {
                        for h in all_histories(&[ka, kd, ke], 5, &[0, t], t + 20) {
                            lines.push(mk_line("LAY", false, &cfg, &h));
                        }
                    }
                }
            }
        }
    }

    // (3) stacking: two or three one-shot keys tapped in a row with every gap, then two plain keys
    for variant in 0..4 {
        for t in ts {
            for red in reds {
                for nos in 2..=3usize {
                    let kinds: Vec<usize> = (0..nos).map(|i| (i + variant + t as usize) % 3).collect();
                    // at most one layer kind per configuration
                    let mut seen_layer = false;
                    let oss: Vec<Os> = kinds
                        .iter()
                        .map(|k| {
                            let kind = if *k == 2 && seen_layer { 0 } else { *k };
                            if kind == 2 {
                                seen_layer = true;
                            }
                            Os { kind, variant, t }
                        })
                        .collect();
                    let cfg = cfg_text(&oss, red);
                    let gaps = [0u32, 1, t - 1, t, t + 1];
                    let oskeys = [ka, kb, kc];
                    let ngap = if nos == 2 { 5 } else { 3 };
                    for g1 in &gaps[..] {
                        for g2 in &gaps[..ngap.min(5)] {
                            for g3 in &gaps[..] {
                                for order in 0..2 {
                                    let mut h = vec![];
                                    tap(&mut h, oskeys[0], 1, *g1);
                                    tap(&mut h, oskeys[1], 1, *g2);
                                    if nos == 3 {
                                        tap(&mut h, oskeys[2], 1, *g2);
                                    }
                                    if order == 1 {
                                        // re-tap the first one-shot key (pcancel / restart)
                                        tap(&mut h, oskeys[0], 1, *g1);
                                    }
                                    h.push(HEv::Tick(*g3));
                                    tap(&mut h, kd, 2, 6);
                                    tap(&mut h, ke, 2, 1);
                                    h.push(HEv::Tick(t + 20));
                                    lines.push(mk_line("LAY", false, &cfg, &h));
                                }
                            }
                        }
                    }
                    ci += 1;
                    let sel = ci % 9 == (seed as usize) % 9;
                    if thorough || sel {
                        let small: Vec<u32> = vec![0, 1, t];
                        let ks: Vec<u16> = if nos == 2 { vec![ka, kb, kd, ke] } else { vec![ka, kb, kc, kd] };
                        let n = if thorough && sel { 4 } else { 3 };
                        for h in all_histories(&ks, n, &small, t + 20) {
                            lines.push(mk_line("LAY", false, &cfg, &h));
                        }
                    }
                }
            }
        }
    }

    // (4) random long histories: 1-3 one-shot keys (variants may differ per key), two plain keys
    let n_rand = if thorough { 30000 } else { 3000 };
    for i in 0..n_rand {
        let t = *r.pick(&[3u32, 10, 500]);
        let nos = r.range(1, 3) as usize;
        let uniform = r.chance(3, 4);
        let v0 = r.below(4) as usize;
        let mut seen_layer = false;
        let oss: Vec<Os> = (0..nos)
            .map(|_| {
                let mut kind = r.below(3) as usize;
                if kind == 2 && seen_layer {
                    kind = 0;
                }
                if kind == 2 {
                    seen_layer = true;
                }
                Os { kind, variant: if uniform { v0 } else { r.below(4) as usize }, t: if r.chance(1, 6) { *r.pick(&[3u32, 10, 500]) } else { t } }
            })
            .collect();
        let red = match r.below(4) {
            0 => Some(0u16),
            1 => Some(1),
            2 => Some(2),
            _ => None,
        };
        let cfg = cfg_text(&oss, red);
        let gaps = [0u32, 1, 2, 5, 6, t - 1, t, t + 1];
        let n_ev = if i % 12 == 0 { r.range(34, 70) } else { r.range(3, 18) } as usize;
        let keys: Vec<u16> = [ka, kb, kc][..nos].iter().copied().chain([kd, ke]).collect();
        let h = consistent_history(&mut r, &keys, n_ev, &gaps, t + 20);
        lines.push(mk_line("LAY", false, &cfg, &h));
    }

    // (5) more than 16 one-shot keys stacked: 18 one-shot keys tapped in a row (and at random), then
    //     plain keys; the same key tapped more than 16 times
    let many: Vec<u16> = MANY.iter().map(|k| code(k)).collect();
    for variant in 0..4 {
        for red in reds {
            let cfg = many_cfg(variant, 500, red);
            for g in [0u32, 1, 2] {
                for hold in [0u32, 1] {
                    for n in [16usize, 17, 18] {
                        let mut h = vec![];
                        for k in &many[..n] {
                            tap(&mut h, *k, hold, g);
                        }
                        h.push(HEv::Tick(3));
                        tap(&mut h, kd, 2, 7);
                        tap(&mut h, ke, 2, 1);
                        h.push(HEv::Tick(860));
                        lines.push(mk_line("LAY", false, &cfg, &h));
                        // all held, then released in order
                        let mut h = vec![];
                        for k in &many[..n] {
                            h.push(HEv::Press(0, *k));
                            if g > 0 {
                                h.push(HEv::Tick(g));
                            }
                        }
                        for k in &many[..n] {
                            h.push(HEv::Release(0, *k));
                            h.push(HEv::Tick(1));
                        }
                        tap(&mut h, kd, 2, 7);
                        h.push(HEv::Tick(860));
                        lines.push(mk_line("LAY", false, &cfg, &h));
                    }
                    // one key tapped 20 times
                    let mut h = vec![];
                    for _ in 0..20 {
                        tap(&mut h, many[0], hold, g.max(1));
                    }
                    tap(&mut h, kd, 2, 7);
                    h.push(HEv::Tick(860));
                    lines.push(mk_line("LAY", false, &cfg, &h));
                }
            }
        }
    }
    let n_many = if thorough { 4000 } else { 400 };
    for _ in 0..n_many {
        let variant = r.below(4) as usize;
        let t = *r.pick(&[60u32, 500]);
        let red = *r.pick(&reds);
        let cfg = many_cfg(variant, t, red);
        let mut keys = many.clone();
        keys.push(kd);
        keys.push(ke);
        let n_ev = r.range(30, 90) as usize;
        let h = consistent_history(&mut r, &keys, n_ev, &[0, 1, 1, 2, 3], t + 620);
        lines.push(mk_line("LAY", false, &cfg, &h));
    }
    // (6) output chords and rpt-any under an active one-shot; one-shot-pause-processing
    chord_repeat_pause(&mut r, thorough, &mut lines);
    // (7) pause keys inside the oracle's fragment, (8) a one-shot activated by a chords v2 chord (t5)
    pause_fragment(&mut r, thorough, &mut lines);
    chord_one_shot(&mut r, thorough, &mut lines);
    // (9) an XX key / an unmapped position as a following key (t5, seeded change C06g)
    noop_following(thorough, seed, &mut lines);
    lines
}
