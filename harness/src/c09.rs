//! C09 generator: input chords (defchords groups, and defchordsv2 tables) whose actions are marker
//! keys (distinct plain keys used nowhere else), so that every effect in the trace is attributable
//! to one chord.
//!
//! Layout of every generated configuration:
//!   defsrc  a b c d e f g h
//!   l0      chord keys on the first n positions, then plain keys, `h` = (layer-while-held l1)
//!   l1      every key plain (chords "disabled" for v1; v2 entries may list l1 as a disabled layer)
//!
//! Families:
//!  (1) for fixed and random tables over 2..5 participants and every target set S (|S| >= 2, defined
//!      or not): every permutation of the press order x every release order x timing variants
//!      (span between first and last press below / at / above the timeout, early / late release);
//!      exhaustive for |S| <= 4 (quick: fewer timing variants for |S| = 4), sampled for |S| = 5;
//!  (2) the same press sets typed while `h` holds the layer on which the keys are plain;
//!  (3) a non-chord key pressed inside the chord window;
//!  (4) random physically consistent histories mixing chord keys, plain keys and the layer key.
use crate::cfggen::*;
use crate::lay::{mk_line, HEv};
use crate::rng::Rng;

pub const SRC: [&str; 8] = ["a", "b", "c", "d", "e", "f", "g", "h"];
pub const MARKERS: [&str; 36] = [
    "1", "2", "3", "4", "5", "6", "7", "8", "9", "0", "q", "w", "r", "t", "y", "u", "i", "o", "p", "s", "j", "k", "l",
    "z", "x", "v", "n", "m", "f1", "f2", "f3", "f4", "f5", "f6", "f7", "f8",
];

#[derive(Clone, Debug)]
pub struct Table {
    pub n: usize,         // participating keys: SRC[0..n]
    pub masks: Vec<u32>,  // defined chords, bit i = SRC[i]; marker of masks[j] is MARKERS[j]
    pub timeout: u32,
}

fn keys_of(mask: u32) -> Vec<usize> {
    (0..8).filter(|i| mask >> i & 1 == 1).collect()
}

pub fn v1_cfg(t: &Table, red: Option<u16>) -> String {
    let mut s = String::from("(defcfg");
    if let Some(d) = red {
        s.push_str(&format!(" rapid-event-delay {d}"));
    }
    s.push_str(")\n(defsrc a b c d e f g h)\n(deflayer l0");
    for i in 0..8 {
        if i < t.n {
            s.push_str(&format!(" (chord cg {})", SRC[i]));
        } else if i == 7 {
            s.push_str(" (layer-while-held l1)");
        } else {
            s.push_str(&format!(" {}", SRC[i]));
        }
    }
    s.push_str(")\n(deflayer l1 a b c d e f g _)\n");
    s.push_str(&format!("(defchords cg {}", t.timeout));
    for (j, m) in t.masks.iter().enumerate() {
        s.push_str(" (");
        s.push_str(&keys_of(*m).iter().map(|i| SRC[*i]).collect::<Vec<_>>().join(" "));
        s.push_str(&format!(") {}", MARKERS[j]));
    }
    s.push_str(")\n");
    s
}

/// release behaviour / disabled layer of v2 entries are drawn per entry from `rb` / `dis` bit masks
pub fn v2_cfg(t: &Table, first_release: u32, disabled_l1: u32, red: Option<u16>, min_idle: Option<u32>) -> String {
    v2_cfg_mixed(t, first_release, disabled_l1, red, min_idle, 0)
}

/// as `v2_cfg`, with per-entry timeouts: entry j gets `timeout * (1 + two bits of tmix)`, so that
/// overlapping chords on a shared key wait for different lengths of time
pub fn v2_cfg_mixed(t: &Table, first_release: u32, disabled_l1: u32, red: Option<u16>, min_idle: Option<u32>, tmix: u32) -> String {
    let mut s = String::from("(defcfg concurrent-tap-hold yes");
    if let Some(d) = red {
        s.push_str(&format!(" rapid-event-delay {d}"));
    }
    if let Some(d) = min_idle {
        s.push_str(&format!(" chords-v2-min-idle {d}"));
    }
    s.push_str(")\n(defsrc a b c d e f g h)\n(deflayer l0 a b c d e f g (layer-while-held l1))\n(deflayer l1 a b c d e f g _)\n(defchordsv2");
    for (j, m) in t.masks.iter().enumerate() {
        s.push_str("\n (");
        s.push_str(&keys_of(*m).iter().map(|i| SRC[*i]).collect::<Vec<_>>().join(" "));
        s.push_str(&format!(
            ") {} {} {} ({})",
            MARKERS[j],
            t.timeout * (1 + (tmix >> (2 * (j % 16)) & 3)),
            if first_release >> j & 1 == 1 { "first-release" } else { "all-released" },
            if disabled_l1 >> j & 1 == 1 { "l1" } else { "" }
        ));
    }
    s.push_str(")\n");
    s
}

fn permutations(xs: &[usize]) -> Vec<Vec<usize>> {
    if xs.len() <= 1 {
        return vec![xs.to_vec()];
    }
    let mut out = vec![];
    for i in 0..xs.len() {
        let mut rest = xs.to_vec();
        let x = rest.remove(i);
        for mut p in permutations(&rest) {
            p.insert(0, x);
            out.push(p);
        }
    }
    out
}

/// timing variant: `span` ticks between the first and the last press, placed before the last press
/// (`form` 0), after the first press (`form` 1) or spread one gap per press (`form` 2, span is then
/// rounded down to a multiple); `hold` ticks between the last press and the first release; `rgap`
/// ticks between releases
#[derive(Clone, Copy, Debug)]
pub struct Timing {
    pub span: u32,
    pub form: u8,
    pub hold: u32,
    pub rgap: u32,
}

pub fn clean_history(code_of: &[u16], press: &[usize], release: &[usize], tm: Timing, layer_key: Option<u16>) -> Vec<HEv> {
    let mut h = vec![];
    if let Some(l) = layer_key {
        h.push(HEv::Press(0, l));
        h.push(HEv::Tick(3));
    }
    let k = press.len();
    for (i, p) in press.iter().enumerate() {
        h.push(HEv::Press(0, code_of[*p]));
        if i + 1 < k {
            let g = match tm.form {
                0 => {
                    if i + 2 == k {
                        tm.span
                    } else {
                        0
                    }
                }
                1 => {
                    if i == 0 {
                        tm.span
                    } else {
                        0
                    }
                }
                _ => tm.span / (k as u32 - 1),
            };
            if g > 0 {
                h.push(HEv::Tick(g));
            }
        }
    }
    if tm.hold > 0 {
        h.push(HEv::Tick(tm.hold));
    }
    for (i, p) in release.iter().enumerate() {
        h.push(HEv::Release(0, code_of[*p]));
        if i + 1 < release.len() && tm.rgap > 0 {
            h.push(HEv::Tick(tm.rgap));
        }
    }
    if let Some(l) = layer_key {
        h.push(HEv::Tick(40));
        h.push(HEv::Release(0, l));
    }
    h.push(HEv::Tick(400));
    h
}

fn timings(t: u32, level: u8) -> Vec<Timing> {
    // level 0: minimal, 1: medium, 2: everything
    let late = t + 12;
    let mut v = vec![
        Timing { span: 0, form: 0, hold: 0, rgap: 0 },
        Timing { span: t - 1, form: 0, hold: late, rgap: 1 },
        Timing { span: t, form: 1, hold: 2, rgap: 1 },
    ];
    if level >= 1 {
        v.extend([
            Timing { span: 0, form: 0, hold: late, rgap: 1 },
            Timing { span: 1, form: 1, hold: 0, rgap: 0 },
            Timing { span: t - 1, form: 1, hold: late, rgap: 0 },
            Timing { span: t, form: 0, hold: late, rgap: 1 },
            Timing { span: t + 1, form: 0, hold: late, rgap: 3 },
            Timing { span: t - 1, form: 2, hold: 1, rgap: 1 },
        ]);
    }
    if level >= 2 {
        v.extend([
            Timing { span: 1, form: 0, hold: late, rgap: 1 },
            Timing { span: t.saturating_sub(2), form: 0, hold: 1, rgap: 0 },
            Timing { span: t - 1, form: 0, hold: 0, rgap: 0 },
            Timing { span: t, form: 1, hold: late, rgap: 1 },
            Timing { span: t + 1, form: 1, hold: late, rgap: 1 },
            Timing { span: t + 1, form: 2, hold: late, rgap: 1 },
            Timing { span: 2 * t + 3, form: 2, hold: 3, rgap: 2 },
        ]);
    }
    v
}

pub fn fixed_tables() -> Vec<Table> {
    let m = |s: &str| -> u32 { s.bytes().map(|b| 1u32 << (b - b'a')).sum() };
    let t = |n: usize, timeout: u32, l: &[&str]| Table { n, masks: l.iter().map(|s| m(s)).collect(), timeout };
    vec![
        t(2, 5, &["ab"]),
        t(2, 20, &["a", "b", "ab"]),
        t(3, 5, &["abc"]),
        t(3, 20, &["a", "b", "c", "ab", "abc"]),
        t(3, 5, &["ab", "bc", "abc"]),        // overlapping
        t(3, 8, &["ab", "bc", "c"]),          // undefined superset
        t(4, 5, &["abcd"]),
        t(4, 20, &["ab", "cd", "a", "d"]),    // undefined superset, decomposition into sub-chords
        t(4, 8, &["a", "b", "c", "d", "ab", "bc", "cd", "abc", "bcd", "abcd"]),
        t(5, 6, &["abcde"]),
        t(5, 20, &["ab", "cde", "abc", "e", "a"]),
    ]
}

pub fn random_table(r: &mut Rng) -> Table {
    let n = r.range(2, 5) as usize;
    let all: Vec<u32> = (1..(1u32 << n)).collect();
    let want = r.range(1, std::cmp::min(all.len() as u64, 9)) as usize;
    let mut masks: Vec<u32> = vec![];
    while masks.len() < want {
        let m = *r.pick(&all);
        if !masks.contains(&m) {
            masks.push(m);
        }
    }
    // every key must occur in some chord (the parser refuses unused keys only when they are named
    // in the table, which they are not here, so just make sure the chord actions exist)
    let mut used = 0;
    for m in &masks {
        used |= *m;
    }
    for i in 0..n {
        if used >> i & 1 == 0 {
            masks.push(1 << i);
        }
    }
    Table { n, masks, timeout: *r.pick(&[3u32, 5, 8, 20, 50]) }
}

fn family(lines: &mut Vec<String>, r: &mut Rng, t: &Table, v2: bool, thorough: bool, codes: &[u16], cfg: &str) {
    let hkey = codes[7];
    for s in 1u32..(1 << t.n) {
        let ks = keys_of(s);
        let k = ks.len();
        if k < 2 {
            continue;
        }
        let level = match (k, thorough) {
            (2, _) | (3, _) => 2,
            (4, true) => 2,
            (4, false) => 0,
            (_, true) => 1,
            (_, false) => 0,
        };
        let tms = timings(t.timeout, level);
        let perms = permutations(&ks);
        let sample_n: usize = if thorough { 400 } else { 40 };
        if k <= 4 {
            for p in &perms {
                for q in &perms {
                    for tm in &tms {
                        lines.push(mk_line("LAY", false, cfg, &clean_history(codes, p, q, *tm, None)));
                    }
                }
            }
        } else {
            for _ in 0..sample_n {
                let p = r.pick(&perms).clone();
                let q = r.pick(&perms).clone();
                let tm = *r.pick(&tms);
                lines.push(mk_line("LAY", false, cfg, &clean_history(codes, &p, &q, tm, None)));
            }
        }
        // (2) on the layer where the keys are plain / the chord is disabled
        for _ in 0..(if thorough { 6 } else { 2 }) {
            let p = r.pick(&perms).clone();
            let q = r.pick(&perms).clone();
            let tm = *r.pick(&tms);
            lines.push(mk_line("LAY", false, cfg, &clean_history(codes, &p, &q, tm, Some(hkey))));
        }
        // (3) a non-chord key inside the window: after the j-th press
        for _ in 0..(if thorough { 8 } else { 2 }) {
            let p = r.pick(&perms).clone();
            let q = r.pick(&perms).clone();
            let j = r.range(1, k as u64) as usize;
            let mut h = vec![];
            for (i, x) in p.iter().enumerate() {
                h.push(HEv::Press(0, codes[*x]));
                if i + 1 == j {
                    h.push(HEv::Press(0, codes[5]));
                    if r.chance(1, 2) {
                        h.push(HEv::Press(0, codes[6]));
                    }
                }
                if r.chance(1, 3) {
                    h.push(HEv::Tick(1));
                }
            }
            h.push(HEv::Tick(t.timeout + 12));
            for x in &q {
                h.push(HEv::Release(0, codes[*x]));
            }
            h.push(HEv::Release(0, codes[5]));
            h.push(HEv::Release(0, codes[6]));
            h.push(HEv::Tick(400));
            // releasing g when it was not pressed is physically impossible: drop it then
            let pressed_g = h.contains(&HEv::Press(0, codes[6]));
            if !pressed_g {
                h.retain(|e| *e != HEv::Release(0, codes[6]));
            }
            lines.push(mk_line("LAY", false, cfg, &h));
        }
    }
    let _ = v2;
}

/// Families added to reach code that the marker-key families never execute (see the comment at each
/// block for the code it aims at). Deterministic in `r`.
fn cov_families(r: &mut Rng, thorough: bool, codes: &[u16], lines: &mut Vec<String>) {
    // (A) chords v1 whose actions are not plain keys - keyberon/src/layout.rs `waiting_into_tap` with a
    // pressed-queue: the `MultipleActions` arm (the simple members are repeated at every participant's
    // coordinate) and the catch-all arm (macro, tap-hold, layer-switch: performed once); the (a b)
    // combination is undefined and decomposes into two single-key chords that are both tap-holds, so
    // the second one lands in `extra_waiting` (`do_action` HoldTap with `waiting` set).
    for (ti, timeout) in [6u32, 20].into_iter().enumerate() {
        for red in [None, Some(0u16)] {
            let mut cfg = String::from("(defcfg");
            if let Some(d) = red {
                cfg.push_str(&format!(" rapid-event-delay {d}"));
            }
            cfg.push_str(")\n(defsrc a b c d e f g h)\n(deflayer l0 (chord cg a) (chord cg b) (chord cg c) (chord cg d) e f g (layer-while-held l1))\n(deflayer l1 a b c d 7 8 9 _)\n");
            cfg.push_str(&format!(
                "(defchords cg {timeout} (a) (tap-hold 0 8 1 2) (b) (tap-hold 0 5 3 4) (c) z (d) (one-shot 30 lsft) (a c) (multi lctl (layer-while-held l1) (macro x)) (b c) (macro 5 6) (a b c) (one-shot 50 lalt) (c d) (layer-while-held l1) (a d) (layer-switch l1) (b d) (multi (release-key lsft) k))\n"
            ));
            let sets: [&[usize]; 9] = [&[0, 1], &[0, 2], &[1, 2], &[0, 1, 2], &[2, 3], &[0, 3], &[1, 3], &[0, 1, 2, 3], &[3]];
            for s in sets {
                let perms = permutations(s);
                for (pi, p) in perms.iter().enumerate() {
                    if !thorough && s.len() >= 3 && pi % 3 != ti {
                        continue;
                    }
                    let q: Vec<usize> = if pi % 2 == 0 { p.clone() } else { p.iter().rev().copied().collect() };
                    for tm in timings(timeout, 0) {
                        // while the chord's output is held, a plain key is tapped (it is typed on
                        // the layer a chord may hold)
                        let mut h = clean_history(codes, p, &q, tm, None);
                        lines.push(mk_line("LAY", false, &cfg, &h));
                        h.pop();
                        let at = h.iter().position(|e| matches!(e, HEv::Release(..))).unwrap_or(h.len());
                        h.insert(at, HEv::Press(0, codes[4]));
                        h.insert(at + 1, HEv::Tick(2));
                        h.insert(at + 2, HEv::Release(0, codes[4]));
                        h.insert(at + 3, HEv::Tick(2));
                        h.push(HEv::Tick(400));
                        lines.push(mk_line("LAY", false, &cfg, &h));
                    }
                }
            }
            for _ in 0..(if thorough { 300 } else { 30 }) {
                let n_ev = r.range(2, 14) as usize;
                let h = consistent_history(r, &codes[..6], n_ev, &[0, 0, 1, 1, 2, timeout - 1, timeout, timeout + 1], 400);
                lines.push(mk_line("LAY", false, &cfg, &h));
            }
        }
    }
    // (A') histories that END while a chord is pending / active: the final digest then compares the
    // waiting state (v1) and the chords-v2 queue and active-chord list (incl. a chord that is
    // created already released, status X) with the model
    {
        let t = Table { n: 3, masks: vec![0b011, 0b111, 0b001, 0b010, 0b100], timeout: 20 };
        let v1 = v1_cfg(&t, Some(0));
        let t2 = Table { n: 3, masks: vec![0b011, 0b111], timeout: 20 };
        for cfg in [v1, v2_cfg(&t2, 0, 0, Some(0), None), v2_cfg(&t2, u32::MAX, 0, None, None)] {
            for j in [1u32, 2, 5] {
                lines.push(mk_line("LAY", false, &cfg, &[HEv::Press(0, codes[0]), HEv::Tick(j)]));
                lines.push(mk_line("LAY", false, &cfg, &[HEv::Press(0, codes[0]), HEv::Tick(1), HEv::Press(0, codes[1]), HEv::Tick(j)]));
                lines.push(mk_line("LAY", false, &cfg, &[HEv::Press(0, codes[0]), HEv::Press(0, codes[1]), HEv::Release(0, codes[0]), HEv::Tick(j)]));
                lines.push(mk_line("LAY", false, &cfg, &[HEv::Press(0, codes[0]), HEv::Press(0, codes[1]), HEv::Press(0, codes[2]), HEv::Tick(j), HEv::Release(0, codes[1]), HEv::Tick(1)]));
                lines.push(mk_line("LAY", false, &cfg, &[HEv::Press(0, codes[0]), HEv::Press(0, codes[1]), HEv::Tick(25), HEv::Press(0, codes[0]), HEv::Press(0, codes[1]), HEv::Tick(j)]));
            }
        }
    }
    // (B) chords v2, more than 50 activations in one run - keyberon/src/chord.rs `next_coord` wraps
    // the virtual coordinate back to KEY_MAX + 1 after 50 activations
    for fr in [0u32, u32::MAX] {
        let t = Table { n: 3, masks: vec![0b011, 0b110], timeout: 30 };
        let cfg = v2_cfg(&t, fr, 0, Some(0), None);
        for n in [50usize, 51, 53] {
            let mut h = vec![];
            for i in 0..n {
                let (x, y) = if i % 3 == 2 { (1, 2) } else { (0, 1) };
                h.push(HEv::Press(0, codes[x]));
                h.push(HEv::Press(0, codes[y]));
                h.push(HEv::Tick(3));
                h.push(HEv::Release(0, codes[y]));
                h.push(HEv::Release(0, codes[x]));
                h.push(HEv::Tick(8));
            }
            h.push(HEv::Tick(400));
            lines.push(mk_line("LAY", false, &cfg, &h));
        }
    }
    // (C) virtual-key events (row 1) while chords v2 is configured - keyberon/src/chord.rs
    // `drain_virtual_keys` hands them straight on; they neither join nor interrupt a chord
    {
        let cfg = "(defcfg concurrent-tap-hold yes)\n(defsrc a b c d)\n(defvirtualkeys v0 7 v1 (layer-while-held l1) v2 (tap-hold 0 10 8 9))\n(deflayer l0 a b c d)\n(deflayer l1 a b c 0)\n(defchordsv2 (a b) 1 30 all-released () (a b c) 2 30 first-release () (b c) 3 30 all-released (l1))\n";
        let presses: [&[usize]; 4] = [&[0, 1], &[1, 2], &[0, 1, 2], &[0, 3]];
        for ps in presses {
            for v in 0u16..3 {
                for at in 0..=ps.len() {
                    // NOT generated: the plain-key virtual key v0 pressed after the non-chord key d
                    // while d still sits in the chords-v2 queue - the virtual key overtakes it (8 is
                    // output before d), which the oracle's "non-chord keys come out in press order"
                    // clause reports; see the report of the coverage work (suspected deviation)
                    if v == 0 && ps[..at].contains(&3) {
                        continue;
                    }
                    for gap in [0u32, 1] {
                        for vhold in [0u32, 1, 40] {
                            let mut h = vec![];
                            for (i, p) in ps.iter().enumerate() {
                                if i == at {
                                    h.push(HEv::Press(1, v));
                                    if vhold == 1 {
                                        h.push(HEv::Tick(1));
                                    }
                                    if vhold < 40 {
                                        h.push(HEv::Release(1, v));
                                    }
                                }
                                h.push(HEv::Press(0, codes[*p]));
                                if gap > 0 {
                                    h.push(HEv::Tick(gap));
                                }
                            }
                            if at == ps.len() {
                                h.push(HEv::Press(1, v));
                                if vhold < 40 {
                                    h.push(HEv::Release(1, v));
                                }
                            }
                            h.push(HEv::Tick(40));
                            for p in ps {
                                h.push(HEv::Release(0, codes[*p]));
                                h.push(HEv::Tick(1));
                            }
                            if vhold == 40 {
                                h.push(HEv::Release(1, v));
                            }
                            h.push(HEv::Tick(400));
                            lines.push(mk_line("LAY", false, cfg, &h));
                        }
                    }
                }
            }
        }
        // 17 and more virtual-key events between two ticks (the hand-over queue takes them all)
        for n in [16usize, 17, 24, 31, 32, 33] {
            let mut h = vec![HEv::Press(0, codes[0])];
            for i in 0..n {
                let v = (i / 2 % 2) as u16;
                h.push(if i % 2 == 0 { HEv::Press(1, v) } else { HEv::Release(1, v) });
            }
            h.push(HEv::Press(0, codes[1]));
            h.push(HEv::Tick(50));
            h.push(HEv::Release(1, 0));
            h.push(HEv::Release(1, 1));
            h.push(HEv::Release(0, codes[0]));
            h.push(HEv::Release(0, codes[1]));
            h.push(HEv::Tick(400));
            lines.push(mk_line("LAY", false, cfg, &h));
        }
    }
    // (D) more than 16 chords on one starting key - keyberon/src/chord.rs `process_presses`: the
    // 16-slot candidate list overflows (its overflow is ignored), so the whole table is searched
    // again for the second press (the closure's timed-out clause with two accumulated presses, its
    // `false` arm), and the final exact-match search takes the `chord_candidates.is_full()` arm.
    {
        // T1: every 2- and 3-key set containing a (28 chords); T2: every 2..4-key set containing a and b (22)
        let t1: Vec<u32> = (1u32..256).filter(|m| m & 1 == 1 && (2..=3).contains(&m.count_ones())).collect();
        let t2: Vec<u32> = (1u32..256).filter(|m| m & 3 == 3 && (2..=4).contains(&m.count_ones())).collect();
        for (ti, masks) in [t1, t2].into_iter().enumerate() {
            let t = Table { n: 8, masks, timeout: 12 };
            for (fr, dis) in [(0u32, 0u32), (u32::MAX, 0), (0x5555_5555, 0x0000_0006)] {
                let cfg = v2_cfg(&t, fr, dis, if ti == 0 { None } else { Some(0) }, None);
                let sets: [&[usize]; 8] = [&[0], &[0, 1], &[1, 0], &[0, 2], &[0, 1, 2], &[2, 1, 0], &[0, 1, 2, 3], &[0, 1, 2, 3, 4]];
                for p in sets {
                    for tm in timings(12, 0) {
                        for lk in [None, Some(codes[7])] {
                            if lk.is_some() && (dis == 0 || p.contains(&7)) {
                                continue;
                            }
                            let q: Vec<usize> = p.iter().rev().copied().collect();
                            lines.push(mk_line("LAY", false, &cfg, &clean_history(codes, p, &q, tm, lk)));
                        }
                    }
                }
                for _ in 0..(if thorough { 200 } else { 15 }) {
                    let n_ev = r.range(2, 12) as usize;
                    let h = consistent_history(r, &codes[..5], n_ev, &[0, 0, 1, 2, 11, 12, 13], 400);
                    lines.push(mk_line("LAY", false, &cfg, &h));
                }
            }
        }
    }
    // (E) all ten active-chord slots taken, then a chord that completes through the backtracking arm
    // (a key that fits no candidate arrives) or through the final exact-match search (timeout, or a
    // release) - keyberon/src/chord.rs: the second and third `active_chords.push(..).is_err()`
    {
        let cfg = "(defcfg concurrent-tap-hold yes)\n(defsrc a b c d e f)\n(deflayer l0 a b c d e f)\n(defchordsv2 (e f) 9 100 all-released () (a b) 1 20 all-released () (a b c) 2 20 all-released () (a b d) 3 20 all-released ())\n";
        for n in [9usize, 10, 11] {
            for how in 0..3 {
                let mut h = vec![];
                for _ in 0..n {
                    h.push(HEv::Press(0, codes[4]));
                    h.push(HEv::Press(0, codes[5]));
                    h.push(HEv::Tick(3));
                }
                h.push(HEv::Press(0, codes[0]));
                h.push(HEv::Press(0, codes[1]));
                match how {
                    0 => h.push(HEv::Press(0, codes[4])), // fits no candidate: backtrack to (a b)
                    1 => h.push(HEv::Tick(30)),           // (a b) at its timeout
                    _ => {
                        h.push(HEv::Tick(2));
                        h.push(HEv::Release(0, codes[0])); // (a b) on a participant's release
                    }
                }
                h.push(HEv::Tick(40));
                for k in [0usize, 1, 4, 5] {
                    h.push(HEv::Release(0, codes[k]));
                    h.push(HEv::Tick(1));
                }
                h.push(HEv::Tick(400));
                lines.push(mk_line("LAY", false, cfg, &h));
            }
        }
    }
    // (F) chords v2 hands events on while a tap-hold is pending in the layout, until the layout's
    // 32-slot queue overflows - keyberon/src/layout.rs `tick`: the overflow arm of
    // `self.queue.push_back(qd)` (every pending tap-hold is resolved to hold, the oldest event is
    // processed at once)
    {
        let cfg = "(defcfg concurrent-tap-hold yes)\n(defsrc a b c d e f g)\n(deflayer l0 a b c d e f (tap-hold 0 300 x y))\n(defchordsv2 (a b) 1 20 all-released ())\n";
        for n in [30usize, 31, 32, 33, 34, 40] {
            for gap in [1u32, 2] {
                for chord_too in [false, true] {
                    let mut h = vec![HEv::Press(0, codes[6]), HEv::Tick(3)];
                    if chord_too {
                        h.push(HEv::Press(0, codes[0]));
                        h.push(HEv::Press(0, codes[1]));
                        h.push(HEv::Tick(2));
                    }
                    for i in 0..n {
                        let k = codes[4 + (i / 2) % 2];
                        h.push(if i % 2 == 0 { HEv::Press(0, k) } else { HEv::Release(0, k) });
                        h.push(HEv::Tick(gap));
                    }
                    for k in [4usize, 5, 0, 1, 6] {
                        h.push(HEv::Release(0, codes[k]));
                    }
                    h.push(HEv::Tick(700));
                    lines.push(mk_line("LAY", false, cfg, &h));
                }
            }
        }
    }
}

/// BEGIN t3. Families for the release rule of chords v2 ("released per the configured release rule
/// and no later than the release of all participants"), each aimed at a piece of keyberon/src/chord.rs
/// that the marker families did not exercise in a state where it matters.
fn release_rule_families(r: &mut Rng, thorough: bool, codes: &[u16], lines: &mut Vec<String>) {
    // (R1) `next_coord` wraps after 50 hand-outs (two per two-key chord: one when the first key
    // leaves a single candidate, one at completion) WHILE an earlier chord is still held: the
    // wrapped coordinate must not be the one the held chord occupies, or releasing the new chord
    // releases the held one too
    for (fr_held, fr_tap) in [(false, true), (false, false), (true, true)] {
        let t = Table { n: 4, masks: vec![0b0011, 0b1100], timeout: 30 };
        let fr = (fr_held as u32) | ((fr_tap as u32) << 1);
        let cfg = v2_cfg(&t, fr, 0, Some(0), None);
        let ns: &[usize] = if thorough { &[12, 24, 25, 26, 49, 50, 51, 75] } else { &[24, 25, 26, 50] };
        for n in ns {
            let mut h = vec![HEv::Press(0, codes[0]), HEv::Press(0, codes[1]), HEv::Tick(40)];
            for _ in 0..*n {
                h.push(HEv::Press(0, codes[2]));
                h.push(HEv::Press(0, codes[3]));
                h.push(HEv::Tick(3));
                h.push(HEv::Release(0, codes[3]));
                h.push(HEv::Release(0, codes[2]));
                h.push(HEv::Tick(8));
            }
            h.push(HEv::Tick(30));
            h.push(HEv::Release(0, codes[1]));
            h.push(HEv::Tick(2));
            h.push(HEv::Release(0, codes[0]));
            h.push(HEv::Tick(400));
            lines.push(mk_line("LAY", false, &cfg, &h));
        }
    }
    // (R2) virtual-key events (row 1) whose INDEX equals the key code of a chord participant, while
    // the chords-v2 cool-down forwards the queue (`drain_inputs`, first branch): keys esc 1 2 3 have
    // the codes 1..4, the virtual keys the indices 0..4
    {
        let k: Vec<u16> = ["esc", "1", "2", "3", "z"].iter().map(|x| code(x)).collect();
        for (rb0, rb1) in [("first-release", "all-released"), ("all-released", "first-release")] {
            let cfg = format!("(defcfg concurrent-tap-hold yes)\n(defsrc esc 1 2 3 z)\n(defvirtualkeys v0 f13 v1 f14 v2 f15 v3 f16 v4 f17)\n(deflayer l0 esc 1 2 3 z)\n(defchordsv2 (1 2) 7 30 {rb0} () (esc 3) 8 30 {rb1} ())\n");
            for (x, y) in [(1usize, 2usize), (0, 3)] {
                for after in [1u32, 2, 4, 9] {
                    for vs in [vec![0u16], vec![1], vec![2], vec![3], vec![4], vec![1, 2], vec![2, 1], vec![1, 4], vec![4, 1, 2, 3]] {
                        if !thorough && after == 9 && vs.len() == 1 {
                            continue;
                        }
                        let mut h = vec![HEv::Press(0, k[x]), HEv::Press(0, k[y]), HEv::Tick(20)];
                        h.push(HEv::Press(0, k[4])); // no chord starts with z: the cool-down begins
                        h.push(HEv::Tick(after));
                        for v in &vs {
                            h.push(HEv::Press(1, *v));
                            h.push(HEv::Release(1, *v));
                        }
                        h.push(HEv::Tick(40));
                        h.push(HEv::Release(0, k[4]));
                        h.push(HEv::Tick(20));
                        h.push(HEv::Release(0, k[y]));
                        h.push(HEv::Tick(5));
                        h.push(HEv::Release(0, k[x]));
                        h.push(HEv::Tick(400));
                        lines.push(mk_line("LAY", false, &cfg, &h));
                    }
                }
            }
        }
    }
    // (R3) a key that is no participant of the completed chord is pressed AND released between the
    // same two ticks as the chord's keys (`process_presses`: `relevant_release_found` is about any
    // pressed key, `get_active_chord` used it as "a participant was released")
    for fr in [u32::MAX, 0, 0b01] {
        let t = Table { n: 4, masks: vec![0b0011, 0b1100, 0b0111], timeout: 30 };
        let cfg = v2_cfg(&t, fr, 0, if fr == 0 { Some(0) } else { None }, None);
        for other in [5usize, 3, 2] {
            for pos in 0..3usize {
                for tap_gap in [0u32, 1] {
                    for hold in [30u32, 100] {
                        // other == 2 completes (a b c) when it comes before the timeout: kept, the
                        // oracle's clause is per chord
                        let mut h = vec![];
                        let mut ks = vec![codes[0], codes[1]];
                        ks.insert(pos.min(2), codes[other]);
                        for k in &ks {
                            h.push(HEv::Press(0, *k));
                        }
                        if tap_gap > 0 {
                            h.push(HEv::Tick(tap_gap));
                        }
                        h.push(HEv::Release(0, codes[other]));
                        h.push(HEv::Tick(hold));
                        h.push(HEv::Release(0, codes[0]));
                        h.push(HEv::Tick(3));
                        h.push(HEv::Release(0, codes[1]));
                        h.push(HEv::Tick(400));
                        lines.push(mk_line("LAY", false, &cfg, &h));
                    }
                }
            }
        }
    }
    // (R4) long timeouts: the "nothing changed" fast path of `drain_inputs` counts down
    // `ticks_until_next_state_change` (up to the chord's timeout) - releases that arrive while it does
    // must still be seen at once. With the timeouts <= 50 of the other families a delayed release stays
    // inside the oracle's latency bound.
    for timeout in [200u32, 500] {
        for (ti, masks) in [vec![0b011u32], vec![0b011, 0b111], vec![0b011, 0b110]].into_iter().enumerate() {
            let t = Table { n: 3, masks, timeout };
            for fr in [0u32, u32::MAX] {
                let cfg = v2_cfg(&t, fr, 0, if ti == 1 { Some(0) } else { None }, None);
                for order in [[0usize, 1], [1, 0]] {
                    for span in [0u32, 1, 10, 60] {
                        for hold in [0u32, 1, 7] {
                            for rgap in [0u32, 2] {
                                if !thorough && (span == 60 || hold == 7) && rgap == 2 {
                                    continue;
                                }
                                let tm = Timing { span, form: 0, hold, rgap };
                                lines.push(mk_line("LAY", false, &cfg, &clean_history(codes, &order, &order, tm, None)));
                            }
                        }
                    }
                }
                for _ in 0..(if thorough { 60 } else { 8 }) {
                    let n_ev = r.range(4, 14) as usize;
                    let h = consistent_history(r, &codes[..4], n_ev, &[0, 0, 1, 1, 2, 10, 40], 900);
                    lines.push(mk_line("LAY", false, &cfg, &h));
                }
            }
        }
    }
}
/// chords v1 as the configuration spells them out (judged by the runner's source-level oracle,
/// runner/props.py `_c09_src_oracle`): a `(chord g k)` inside the hold slot of a tap-hold
/// (parser `fill_chords`), and one physical key naming DIFFERENT chord keys on different layers
/// (`ChordsGroup::get_keys` looks the coordinate up in one table shared by all layers)
fn v1_source_families(thorough: bool, lines: &mut Vec<String>) {
    let (a, b, c) = (code("a"), code("b"), code("c"));
    let table = "(defchords g 15 (k1) y (k2) z (k1 k2) 1)";
    // (R5) wrapped chord keys
    for th in ["tap-hold", "tap-hold-release"] {
        for (hold, tapt) in [(20u32, 20u32), (40, 0)] {
            let cfg = format!("(defcfg)\n(defsrc a b c)\n(deflayer l0 ({th} {tapt} {hold} x (chord g k1)) (chord g k2) c)\n{table}\n");
            for wait in [hold + 15 + 20, 200] {
                lines.push(mk_line("LAY", false, &cfg, &[HEv::Press(0, a), HEv::Tick(wait), HEv::Release(0, a), HEv::Tick(400)]));
            }
            lines.push(mk_line("LAY", false, &cfg, &[HEv::Press(0, b), HEv::Tick(60), HEv::Release(0, b), HEv::Tick(400)]));
        }
    }
    // (R6) the same key is another chord key on the second layer
    for lk in ["layer-switch", "layer-while-held"] {
        for (c0a, c0b, c1a, c1b) in [("k1", "k2", "k2", "k1"), ("k1", "k2", "k1", "k2"), ("k2", "k1", "k1", "k2")] {
            let cfg = format!("(defcfg)\n(defsrc a b c)\n(deflayer l0 (chord g {c0a}) (chord g {c0b}) ({lk} l2))\n(deflayer l2 (chord g {c1a}) (chord g {c1b}) c)\n{table}\n");
            let sets: [&[u16]; 4] = [&[a], &[b], &[a, b], &[b, a]];
            for ps in sets {
                for on_l2 in [false, true] {
                    for hold in [40u32, 90] {
                        if !thorough && hold == 90 && ps.len() == 2 {
                            continue;
                        }
                        let mut h = vec![];
                        if on_l2 {
                            h.push(HEv::Press(0, c));
                            h.push(HEv::Tick(10));
                            if lk == "layer-switch" {
                                h.push(HEv::Release(0, c));
                                h.push(HEv::Tick(10));
                            }
                        }
                        for p in ps {
                            h.push(HEv::Press(0, *p));
                        }
                        h.push(HEv::Tick(hold));
                        for p in ps {
                            h.push(HEv::Release(0, *p));
                            h.push(HEv::Tick(2));
                        }
                        if on_l2 && lk == "layer-while-held" {
                            h.push(HEv::Release(0, c));
                        }
                        h.push(HEv::Tick(400));
                        lines.push(mk_line("LAY", false, &cfg, &h));
                    }
                }
            }
        }
    }
}
// END t3

pub fn gen(tier: &str, seed: u64) -> Vec<String> {
    let mut r = Rng::new(seed ^ 0xC09);
    let thorough = tier == "thorough";
    let mut lines = vec![];
    let codes: Vec<u16> = SRC.iter().map(|k| code(k)).collect();
    if tier == "cov" || tier == "covt" {
        // only the families that were added to reach otherwise unexecuted code (debugging aid;
        // "covt" = their thorough-tier size)
        cov_families(&mut r, tier == "covt", &codes, &mut lines);
        return lines;
    }

    // ---- chords v1
    let mut tables = fixed_tables();
    for _ in 0..(if thorough { 30 } else { 5 }) {
        tables.push(random_table(&mut r));
    }
    for (i, t) in tables.iter().enumerate() {
        let red = match i % 3 {
            0 => None,
            1 => Some(0),
            _ => Some(2),
        };
        let cfg = v1_cfg(t, red);
        family(&mut lines, &mut r, t, false, thorough, &codes, &cfg);
    }
    // (4) random histories
    let n_rand = if thorough { 20000 } else { 1500 };
    for i in 0..n_rand {
        let t = if r.chance(1, 3) { r.pick(&fixed_tables()).clone() } else { random_table(&mut r) };
        let cfg = v1_cfg(&t, match r.below(3) { 0 => None, 1 => Some(0), _ => Some(3) });
        let tt = t.timeout;
        let gaps = [0, 0, 1, 1, 2, tt - 1, tt, tt + 1];
        let n_ev = if i % 20 == 0 { r.range(34, 70) } else { r.range(2, 16) } as usize;
        let nk = if r.chance(1, 2) { t.n } else { 8 };
        let h = consistent_history(&mut r, &codes[..nk.max(2)], n_ev, &gaps, 400);
        lines.push(mk_line("LAY", false, &cfg, &h));
    }

    // ---- chords v2 (defchordsv2): the same families on v2 tables (|S| >= 2 entries only), both
    // release behaviours, entries disabled on l1, min-idle variants
    let mut v2tables: Vec<Table> = fixed_tables()
        .into_iter()
        .map(|t| Table { n: t.n, masks: t.masks.into_iter().filter(|m| m.count_ones() >= 2).collect(), timeout: t.timeout })
        .filter(|t| !t.masks.is_empty())
        .collect();
    for _ in 0..(if thorough { 20 } else { 3 }) {
        let t = random_table(&mut r);
        let t = Table { n: t.n, masks: t.masks.into_iter().filter(|m| m.count_ones() >= 2).collect(), timeout: t.timeout };
        if !t.masks.is_empty() {
            v2tables.push(t);
        }
    }
    for (i, t) in v2tables.iter().enumerate() {
        let fr = match i % 3 {
            0 => 0,
            1 => u32::MAX,
            _ => r.next() as u32,
        };
        let dis = if i % 4 == 3 { r.next() as u32 } else { 0 };
        let cfg = v2_cfg(t, fr, dis, if i % 2 == 0 { None } else { Some(0) }, if i % 5 == 4 { Some(20) } else { None });
        let mut v2lines = vec![];
        family(&mut v2lines, &mut r, t, true, thorough, &codes, &cfg);
        // the v2 families are sampled in the quick tier
        if !thorough {
            let keep = 700usize;
            let step = (v2lines.len() / keep).max(1);
            v2lines = v2lines.into_iter().step_by(step).collect();
        }
        lines.extend(v2lines);
    }
    // bursts without a tick: 17-40 presses (with or without releases) arrive between two ticks; the
    // chords v2 queue holds 32 events, its press lists 16 (their overflow is ignored)
    {
        let t = Table { n: 4, masks: vec![0b0011, 0b0111, 0b1100], timeout: 50 };
        for cfg in [v2_cfg(&t, 0, 0, None, None), v2_cfg(&t, u32::MAX, 0, Some(0), Some(20))] {
            for n in [16usize, 17, 18, 24, 33, 40] {
                for with_rel in [false, true] {
                    for pat in [[0usize, 0, 0, 0], [0, 1, 0, 1], [0, 1, 2, 3], [4, 0, 1, 4]] {
                        let mut h = vec![];
                        for i in 0..n {
                            let k = codes[pat[i % 4]];
                            h.push(HEv::Press(0, k));
                            if with_rel {
                                h.push(HEv::Release(0, k));
                            }
                        }
                        h.push(HEv::Tick(100));
                        for k in 0..5 {
                            h.push(HEv::Release(0, codes[k]));
                        }
                        h.push(HEv::Tick(300));
                        lines.push(mk_line("LAY", false, &cfg, &h));
                    }
                }
            }
        }
    }
    // a chord disabled on the held layer with two enabled supersets: the backtracking branch (a key
    // that fits no candidate arrives while several are still possible) must honour disabled-layers too
    {
        let t = Table { n: 4, masks: vec![0b0011, 0b0111, 0b1011], timeout: 50 };
        for dis in [0u32, 0b001, 0b010, 0b111] {
            let cfg = v2_cfg(&t, 0, dis, None, None);
            for order in [[0usize, 1], [1, 0]] {
                for intruder in [4usize, 2, 3] {
                    for gap in [0u32, 1, 5] {
                        for with_layer in [false, true] {
                            let mut h = vec![];
                            if with_layer {
                                h.push(HEv::Press(0, codes[7]));
                                h.push(HEv::Tick(10));
                            }
                            for k in order {
                                h.push(HEv::Press(0, codes[k]));
                                if gap > 0 {
                                    h.push(HEv::Tick(gap));
                                }
                            }
                            h.push(HEv::Press(0, codes[intruder]));
                            h.push(HEv::Tick(20));
                            for k in [order[0], order[1], intruder] {
                                h.push(HEv::Release(0, codes[k]));
                                h.push(HEv::Tick(2));
                            }
                            if with_layer {
                                h.push(HEv::Release(0, codes[7]));
                            }
                            h.push(HEv::Tick(400));
                            lines.push(mk_line("LAY", false, &cfg, &h));
                        }
                    }
                }
            }
        }
    }
    // three keys pressed that are no chord, a defined sub-chord among them, then a key that fits no candidate
    for masks in [vec![0b0011u32, 0b1111], vec![0b0011, 0b0111, 0b1111], vec![0b0110, 0b1111]] {
        let t = Table { n: 4, masks, timeout: 50 };
        let cfg = v2_cfg(&t, 0, 0, None, None);
        for order in permutations(&[0usize, 1, 2]) {
            for gap in [0u32, 1, 5] {
                for rel_first in [false, true] {
                    let mut h = vec![];
                    for k in &order {
                        h.push(HEv::Press(0, codes[*k]));
                        if gap > 0 {
                            h.push(HEv::Tick(gap));
                        }
                    }
                    h.push(HEv::Press(0, codes[4]));
                    h.push(HEv::Tick(20));
                    let mut rel: Vec<usize> = order.clone();
                    if rel_first {
                        rel.reverse();
                    }
                    rel.push(4);
                    for k in rel {
                        h.push(HEv::Release(0, codes[k]));
                        h.push(HEv::Tick(2));
                    }
                    h.push(HEv::Tick(400));
                    lines.push(mk_line("LAY", false, &cfg, &h));
                }
            }
        }
    }
    // the reachable capacity panic (DESIGN section 7 row 4): a chord that is never released, 10 times and more
    for n in [9usize, 10, 11, 12] {
        let cfg = "(defcfg concurrent-tap-hold yes)\n(defsrc a b c)\n(deflayer l0 a b c)\n(defchordsv2 (a b) c 100 all-released ())\n";
        let mut h = vec![];
        for _ in 0..n {
            h.push(HEv::Press(0, codes[0]));
            h.push(HEv::Press(0, codes[1]));
            h.push(HEv::Tick(3));
        }
        h.push(HEv::Tick(50));
        lines.push(mk_line("LAY", false, cfg, &h));
    }
    // [t7:chv2-wide] chords with as many participants as the run-time lists hold (16), one fewer and
    // more (17, 20): whatever the parser accepts has to fire when all its keys are pressed inside the
    // timeout - one key per tick, or all between two ticks - and be released per its release rule
    {
        let names = ["a", "b", "c", "d", "e", "f", "g", "h", "i", "j", "k", "l", "m", "n", "o", "p", "q", "r", "s", "t"];
        for n in [15usize, 16, 17, 20] {
            for rel in ["all-released", "first-release"] {
                let ks = &names[..n];
                let cfg = format!(
                    "(defcfg concurrent-tap-hold yes)\n(defsrc {0})\n(deflayer l0 {0})\n(defchordsv2 ({0}) 7 500 {rel} ())\n",
                    ks.join(" ")
                );
                for burst in [false, true] {
                    for rev in [false, true] {
                        let mut h = vec![];
                        for k in ks {
                            h.push(HEv::Press(0, crate::cfggen::code(k)));
                            if !burst {
                                h.push(HEv::Tick(1));
                            }
                        }
                        h.push(HEv::Tick(600));
                        let mut order: Vec<&str> = ks.to_vec();
                        if rev {
                            order.reverse();
                        }
                        for k in order {
                            h.push(HEv::Release(0, crate::cfggen::code(k)));
                            h.push(HEv::Tick(1));
                        }
                        h.push(HEv::Tick(300));
                        lines.push(mk_line("LAY", false, &cfg, &h));
                    }
                }
            }
        }
    }
    let n_rand2 = if thorough { 15000 } else { 1200 };
    for i in 0..n_rand2 {
        let t = loop {
            let t = random_table(&mut r);
            let t = Table { n: t.n, masks: t.masks.into_iter().filter(|m| m.count_ones() >= 2).collect(), timeout: t.timeout };
            if !t.masks.is_empty() {
                break t;
            }
        };
        let tmix = if i % 2 == 1 { r.next() as u32 } else { 0 };
        let cfg = v2_cfg_mixed(&t, r.next() as u32, if r.chance(1, 3) { r.next() as u32 } else { 0 },
            match r.below(3) { 0 => None, 1 => Some(0), _ => Some(3) }, if r.chance(1, 4) { Some(*r.pick(&[5u32, 12, 40])) } else { None }, tmix);
        let tt = t.timeout;
        let gaps = [0, 0, 1, 1, 2, tt - 1, tt, tt + 1, 2 * tt - 1, 2 * tt + 1, 3 * tt];
        let n_ev = if i % 20 == 0 { r.range(34, 70) } else { r.range(2, 16) } as usize;
        let nk = if r.chance(1, 2) { t.n } else { 8 };
        let h = consistent_history(&mut r, &codes[..nk.max(2)], n_ev, &gaps, 400);
        lines.push(mk_line("LAY", false, &cfg, &h));
    }
    cov_families(&mut r, thorough, &codes, &mut lines);
    release_rule_families(&mut r, thorough, &codes, &mut lines); // t3
    v1_source_families(thorough, &mut lines); // t3
    lines
}
