//! LALL: layout-level correspondence over the whole action grammar (no custom actions).
use crate::cfggen::*;
use crate::lay::mk_line;
use crate::rng::Rng;

pub fn gen(tier: &str, seed: u64) -> Vec<String> {
    let mut r = Rng::new(seed ^ 0xA11);
    let n = if tier == "thorough" { 40000 } else { 3000 };
    let mut lines = vec![];
    for i in 0..n {
        let (cfg, keys) = gen_full_cfg(&mut r, false);
        let n_ev = if i % 12 == 0 { r.range(40, 100) } else { r.range(1, 24) } as usize;
        let gaps: &[u32] = match i % 4 {
            0 => &[0, 1, 2, 3, 5],
            1 => &[0, 1, 4, 9, 10, 11],
            2 => &[1, 2, 49, 50, 51, 199, 200, 201],
            _ => &[0, 0, 1, 30],
        };
        let h = consistent_history(&mut r, &keys, n_ev, gaps, 700);
        lines.push(mk_line("LAY", false, &cfg, &h));
    }
    // chv2: the same grammar with a `defchordsv2` table over the same keys (appended: the cases above
    // are what they were)
    let mut r = Rng::new(seed ^ 0xA11C2);
    for i in 0..n / 3 {
        let (cfg, keys) = crate::chv2gen::gen_full_cfg_chv2(&mut r, false);
        let n_ev = if i % 12 == 0 { r.range(40, 100) } else { r.range(1, 24) } as usize;
        let gaps: &[u32] = match i % 4 {
            0 => &[0, 1, 2, 3, 5],
            1 => &[0, 1, 4, 9, 10, 11],
            2 => &[1, 2, 19, 20, 21, 49, 50, 51],
            _ => &[0, 0, 1, 30],
        };
        let h = consistent_history(&mut r, &keys, n_ev, gaps, 700);
        lines.push(mk_line("LAY", false, &cfg, &h));
    }
    lines
}
