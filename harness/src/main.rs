//! kvharness: runs the real kanata code on generated cases and prints canonical results.
//!   kvharness gen  <prop> <tier> <seed>     -> case lines on stdout
//!   kvharness eval <prop>                   -> reads case lines on stdin, prints one `I ...` line each
mod rng;
mod c10;
mod c13;
mod c19;
mod ser;
mod lay;
mod kan;
mod kandyn;
mod kanseq; // [seq]
mod kall;
mod c01;
mod c02;
mod c04;
mod c05;
mod c17;
mod c07;
mod c14;
mod c18;
mod lall;
mod cfggen;
mod chv2gen; // chv2
mod c12;
mod c16;
mod c20; // C20
mod c15;
mod c11; // C11
mod c06;
mod c08;
mod c09;
mod c03; // C03
mod c03cov;

use std::io::{BufRead, Write};

fn main() {
    let args: Vec<String> = std::env::args().collect();
    if args.len() < 3 {
        eprintln!("usage: kvharness gen <prop> <tier> <seed> | eval <prop>");
        std::process::exit(2);
    }
    std::panic::set_hook(Box::new(|_| {}));
    let prop = args[2].as_str();
    match args[1].as_str() {
        "gen" => {
            let tier = args.get(3).map(|s| s.as_str()).unwrap_or("quick");
            let seed: u64 = args.get(4).and_then(|s| s.parse().ok()).unwrap_or(1);
            let out = std::io::stdout();
            let mut out = std::io::BufWriter::new(out.lock());
            let lines = match prop {
                "C03" => c03::gen(tier, seed), // C03
                "C09" => c09::gen(tier, seed),
                "C08" => c08::gen(tier, seed),
                "C06" => c06::gen(tier, seed),
                "C11" => c11::gen(tier, seed), // C11
                "C15" => c15::gen(tier, seed),
                "C20" => c20::gen(tier, seed), // C20
                "C16" => c16::gen(tier, seed),
                "C12" => {
                    // [seq] plus kanata-level cases with sequence mode (composed model)
                    let mut v = c12::gen(tier, seed);
                    v.extend(kanseq::gen(tier, seed));
                    v
                }
                "C10" => c10::gen(tier, seed),
                "C13" => c13::gen(tier, seed),
                "C19" => c19::gen(tier, seed),
                "C04" => c04::gen(tier, seed),
                "LALL" => lall::gen(tier, seed),
                "KALL" => kall::gen(tier, seed),
                "C02" => c02::gen(tier, seed),
                "C01" => c01::gen(tier, seed),
                "C14" => c14::gen(tier, seed),
                "C07" => c07::gen(tier, seed),
                "C18" => c18::gen(tier, seed),
                "C05" => c05::gen(tier, seed),
                "C17" => c17::gen(tier, seed),
                _ => {
                    eprintln!("unknown property {prop}");
                    std::process::exit(2);
                }
            };
            for l in lines {
                writeln!(out, "{l}").unwrap();
            }
        }
        "eval" => {
            let stdin = std::io::stdin();
            let out = std::io::stdout();
            let mut out = out.lock();
            for line in stdin.lock().lines() {
                let line = line.unwrap();
                if line.trim().is_empty() {
                    continue;
                }
                let l2 = line.clone();
                let p = prop.to_string();
                let res = std::panic::catch_unwind(move || match p.as_str() {
                    "C03" => c03::eval(&l2), // C03
                    "C08" => c08::eval(&l2),
                    "C11" => c11::eval(&l2), // C11
                    "C15" => c15::eval(&l2),
                    "C20" => c20::eval(&l2), // C20
                    "C16" => c16::eval(&l2),
                    "C12" if l2.starts_with("KAN ") => kan::eval(&l2), // [seq]
                    "C12" => c12::eval(&l2),
                    "C10" => c10::eval(&l2),
                    "C07" => c07::eval(&l2),
                    "C14" if l2.starts_with("KOT ") => c14::eval_kot(&l2), // C14v2
                    "C02" | "C14" | "C01" | "C18" => kan::eval_free(&l2),
                    "KALL" => kan::eval(&l2),
                    "C13" => c13::eval(&l2),
                    "C19" if l2.starts_with("KAN ") => kan::eval(&l2), // composed model
                    "C19" => c19::eval(&l2),
                    "C04" => c04::eval(&l2),
                    "LALL" | "C05" | "C06" | "C17" | "C08" | "C09" => lay::eval(&l2),
                    _ => "bad-prop".to_string(),
                });
                let res = match res {
                    Ok(s) => s,
                    Err(e) => {
                        let msg = if let Some(s) = e.downcast_ref::<String>() {
                            s.clone()
                        } else if let Some(s) = e.downcast_ref::<&str>() {
                            s.to_string()
                        } else {
                            "?".to_string()
                        };
                        format!("crash panic {}", msg.replace('\n', " "))
                    }
                };
                writeln!(out, "I {res}").unwrap();
                out.flush().unwrap();
            }
        }
        "expand" => {
            let stdin = std::io::stdin();
            let out = std::io::stdout();
            let mut out = out.lock();
            for line in stdin.lock().lines() {
                let line = line.unwrap();
                if line.trim().is_empty() {
                    continue;
                }
                let l2 = line.clone();
                let p = prop.to_string();
                let res = std::panic::catch_unwind(move || match p.as_str() {
                    "C14" if l2.starts_with("KOT ") => c14::expand_kot(&l2), // C14v2
                    "C08" => c08::expand(&l2),
                    "C12" if l2.starts_with("KAN ") => kan::expand(&l2), // [seq]
                    "C19" if l2.starts_with("KAN ") => kan::expand(&l2), // [dyn]
                    "C10" => {
                        if l2.starts_with("KAN ") {
                            kan::expand(&l2)
                        } else {
                            l2.clone()
                        }
                    }
                    "KALL" | "C01" | "C02" | "C07" | "C14" | "C18" => kan::expand(&l2),
                    "C04" | "LALL" | "C05" | "C06" | "C17" | "C08" | "C09" => lay::expand(&l2),
                    _ => l2.clone(),
                });
                let res = match res {
                    Ok(s) => s,
                    Err(_) => "EXPAND-CRASH".to_string(),
                };
                writeln!(out, "{res}").unwrap();
                out.flush().unwrap();
            }
        }
        _ => {
            eprintln!("unknown mode");
            std::process::exit(2);
        }
    }
}
