//! C18 generator: virtual keys with marker actions operated through on-press / on-release /
//! hold-for-duration / on-idle actions and direct fake-key calls.
use crate::cfggen::code;
use crate::kan::{mk_kline, KEv};
use crate::lay::HEv;
use crate::rng::Rng;

/// a b c d e: press / release / tap / toggle / on-release-toggle of v0; f: hold-for-duration D v1;
/// g: on-idle tap of v2 after D; h: plain key
pub fn cfg_text(d_hold: u32, d_idle: u32, v0: &str, v1: &str) -> String {
    format!(
        "(defvirtualkeys v0 {v0} v1 {v1} v2 y)\n(defsrc a b c d e f g h)\n(deflayer l0 (on-press-fakekey v0 press) (on-press-fakekey v0 release) (on-press-fakekey v0 tap) (on-press-fakekey v0 toggle) (on-release-fakekey v0 toggle) (hold-for-duration {d_hold} v1) (on-idle-fakekey v2 tap {d_idle}) h)\n(deflayer l1 1 1 1 1 1 1 1 2)\n"
    )
}

/// as `cfg_text`, but key h is a second hold-for-duration of the SAME virtual key v1 with its own time
pub fn cfg_text2(d1: u32, d2: u32) -> String {
    format!(
        "(defvirtualkeys v0 q v1 w v2 y)\n(defsrc a b c d e f g h)\n(deflayer l0 (on-press-fakekey v0 press) (on-press-fakekey v0 release) (on-press-fakekey v0 tap) (on-press-fakekey v0 toggle) (on-release-fakekey v0 toggle) (hold-for-duration {d1} v1) (on-idle-fakekey v2 tap 50) (hold-for-duration {d2} v1))\n(deflayer l1 1 1 1 1 1 1 1 2)\n"
    )
}

/// hold-for-duration next to EXPLICIT releases of the same virtual key v1 (marker w):
/// f: hold-for-duration D v1; g: a second hold-for-duration D2 v1; h: release-vkey v1 on press;
/// e: (release-key w); a-d plain keys
pub fn cfg_text3(d1: u32, d2: u32) -> String {
    format!(
        "(defvirtualkeys v0 q v1 w v2 y)\n(defsrc a b c d e f g h)\n(deflayer l0 1 2 3 4 (release-key w) (hold-for-duration {d1} v1) (hold-for-duration {d2} v1) (on-press-fakekey v1 release))\n(deflayer l1 1 1 1 1 1 1 1 2)\n"
    )
}

/// a MACRO operating virtual key v1 (marker w) next to keys with custom actions of their own:
/// a: (macro press-v1 D release-v1); b: (macro tap-v1); c: (macro toggle-v1 D toggle-v1);
/// d: (on-press-fakekey v0 tap); e: (on-release-fakekey v0 tap); f: mlft; g: (on-press-fakekey v0 toggle);
/// h: (macro toggle-v1)
pub fn cfg_text4(d: u32) -> String {
    format!(
        "(defvirtualkeys v0 q v1 w v2 y)\n(defsrc a b c d e f g h)\n(deflayer l0 (macro (on-press-fakekey v1 press) {d} (on-press-fakekey v1 release)) (macro (on-press-fakekey v1 tap)) (macro (on-press-fakekey v1 toggle) {d} (on-press-fakekey v1 toggle)) (on-press-fakekey v0 tap) (on-release-fakekey v0 tap) mlft (on-press-fakekey v0 toggle) (macro (on-press-fakekey v1 toggle)))\n(deflayer l1 1 1 1 1 1 1 1 2)\n"
    )
}

/// Family (2d) `macro-collision`: the macro's custom items fall due on every tick offset relative to
/// the press and the release of a second key that produces a custom event of its own (keyberon
/// delivers one custom event per tick: a macro's item must be put off by a tick, never dropped).
fn macro_collision_family(lines: &mut Vec<String>, thorough: bool) {
    let keys: Vec<u16> = ["a", "b", "c", "d", "e", "f", "g", "h"].iter().map(|k| code(k)).collect();
    for d in if thorough { vec![10u32, 20, 50] } else { vec![10u32] } {
        let cfg = cfg_text4(d);
        for mk in [keys[0], keys[1], keys[2], keys[7]] {
            for other in [keys[3], keys[4], keys[5], keys[6]] {
                for off in 0..=d + 5 {
                    for hold in [1u32, 2, 7] {
                        for early_release in [false, true] {
                            let mut h = vec![KEv::L(HEv::Press(0, mk))];
                            if early_release {
                                h.push(KEv::L(HEv::Release(0, mk)));
                            }
                            if off > 0 {
                                h.push(KEv::L(HEv::Tick(off)));
                            }
                            h.push(KEv::L(HEv::Press(0, other)));
                            h.push(KEv::L(HEv::Tick(hold)));
                            h.push(KEv::L(HEv::Release(0, other)));
                            h.push(KEv::L(HEv::Tick(d + 10)));
                            if !early_release {
                                h.push(KEv::L(HEv::Release(0, mk)));
                            }
                            h.push(KEv::L(HEv::Tick(80)));
                            lines.push(mk_kline("KAN", false, &cfg, &h));
                        }
                    }
                }
            }
        }
    }
}

fn tap(h: &mut Vec<KEv>, k: u16, hold: u32, after: u32) {
    h.push(KEv::L(HEv::Press(0, k)));
    h.push(KEv::L(HEv::Tick(hold)));
    h.push(KEv::L(HEv::Release(0, k)));
    h.push(KEv::L(HEv::Tick(after)));
}

pub fn gen(tier: &str, seed: u64) -> Vec<String> {
    let mut r = Rng::new(seed ^ 0xC18);
    let thorough = tier == "thorough";
    let mut lines = vec![];
    if tier == "macrocol" {
        macro_collision_family(&mut lines, false);
        return lines;
    }
    let keys: Vec<u16> = ["a", "b", "c", "d", "e", "f", "g", "h"].iter().map(|k| code(k)).collect();
    // (2d) a macro operating a virtual key while other keys produce custom events
    macro_collision_family(&mut lines, thorough);
    // (1) settled operation sequences on v0 through keys and direct calls
    let n1 = if thorough { 6000 } else { 800 };
    for i in 0..n1 {
        let v0 = if i % 5 == 4 { "(layer-while-held l1)" } else { "q" };
        let cfg = cfg_text(10, 50, v0, "w");
        let mut h = vec![];
        let n = r.range(1, 8);
        for _ in 0..n {
            if r.chance(1, 3) {
                // direct call: press / release / tap / toggle of v0 (row 1, column 0)
                h.push(KEv::Fake(r.below(4) as u8, 1, 0));
                h.push(KEv::L(HEv::Tick(r.range(4, 9) as u32)));
            } else {
                let k = keys[r.below(5) as usize];
                tap(&mut h, k, r.range(4, 8) as u32, r.range(4, 9) as u32);
            }
            if v0 != "q" && r.chance(1, 2) {
                tap(&mut h, keys[7], 4, 4);
            }
        }
        h.push(KEv::L(HEv::Tick(20)));
        lines.push(mk_kline("KAN", false, &cfg, &h));
    }
    // (2) hold-for-duration: durations around every re-activation gap
    for d in [1u32, 2, 3, 5, 10, 50] {
        for gap in [0u32, 1, d.saturating_sub(1), d, d + 1, d + 5] {
            for reps in 1..=3u32 {
                let cfg = cfg_text(d, 50, "q", "w");
                let mut h = vec![];
                for _ in 0..reps {
                    h.push(KEv::L(HEv::Press(0, keys[5])));
                    h.push(KEv::L(HEv::Tick(1)));
                    h.push(KEv::L(HEv::Release(0, keys[5])));
                    if gap > 0 {
                        h.push(KEv::L(HEv::Tick(gap)));
                    }
                }
                h.push(KEv::L(HEv::Tick(d + 20)));
                lines.push(mk_kline("KAN", false, &cfg, &h));
            }
        }
    }
    // (2b) two keys holding the same virtual key for different times: the most recent activation decides
    for (d1, d2) in [(50u32, 5u32), (5, 50), (20, 10), (51, 49), (10, 10), (200, 3)] {
        for gap in [0u32, 1, 3, d2.saturating_sub(1), d2 + 1, d1.saturating_sub(2), d1 + 3] {
            for order in 0..3u32 {
                let cfg = cfg_text2(d1, d2);
                let (k1, k2) = if order == 1 { (keys[7], keys[5]) } else { (keys[5], keys[7]) };
                let mut h = vec![];
                tap(&mut h, k1, 1, gap);
                tap(&mut h, k2, 1, 0);
                if order == 2 {
                    h.push(KEv::L(HEv::Tick(gap)));
                    tap(&mut h, k1, 1, 0);
                }
                h.push(KEv::L(HEv::Tick(d1 + d2 + 30)));
                lines.push(mk_kline("KAN", false, &cfg, &h));
            }
        }
    }
    // (2c) hold-for-duration and explicit releases of the same virtual key (remark R2): activate,
    // release it by release-vkey / a direct release call / release-key of its code, activate again -
    // inside the first countdown, at its end, after it; operations >= 8 ticks apart (settled)
    for (d1, d2) in [(50u32, 50u32), (40, 20), (20, 60)] {
        let cfg = cfg_text3(d1, d2);
        let (ke, kf, kg, kh) = (keys[4], keys[5], keys[6], keys[7]);
        for how in 0..3u32 {
            let release = |h: &mut Vec<KEv>, after: u32| match how {
                0 => tap(h, kh, 1, after),
                1 => tap(h, ke, 1, after),
                _ => {
                    h.push(KEv::Fake(1, 1, 1));
                    h.push(KEv::L(HEv::Tick(after + 1)));
                }
            };
            for g1 in [8u32, 12] {
                // the second activation: inside the first countdown, around its end, well after it
                for g2 in [8u32, 10, d1.saturating_sub(g1 + 9), d1.saturating_sub(g1 + 2), d1.saturating_sub(g1 + 1), d1.saturating_sub(g1), d1.saturating_sub(g1) + 1, d1 + 8, d1 + 30] {
                    if g2 < 8 {
                        continue;
                    }
                    for second in [kf, kg] {
                        let mut h = vec![];
                        tap(&mut h, kf, 1, g1 - 1);
                        release(&mut h, g2 - 1);
                        tap(&mut h, second, 1, 0);
                        h.push(KEv::L(HEv::Tick(d1 + d2 + 30)));
                        lines.push(mk_kline("KAN", false, &cfg, &h));
                        // ... and a third operation: another release / another activation
                        let mut h3 = vec![];
                        tap(&mut h3, kf, 1, g1 - 1);
                        release(&mut h3, g2 - 1);
                        tap(&mut h3, second, 1, 9);
                        release(&mut h3, 9);
                        tap(&mut h3, kf, 1, 0);
                        h3.push(KEv::L(HEv::Tick(d1 + d2 + 30)));
                        lines.push(mk_kline("KAN", false, &cfg, &h3));
                    }
                }
                // controls: release only (the hold ends early and stays ended), re-arm without a release
                let mut h = vec![];
                tap(&mut h, kf, 1, g1 - 1);
                release(&mut h, 0);
                h.push(KEv::L(HEv::Tick(d1 + d2 + 30)));
                lines.push(mk_kline("KAN", false, &cfg, &h));
            }
        }
    }
    // (3) on-idle under the processing loop (gap = milliseconds without input)
    for d in [5u32, 20, 100] {
        for extra in [0u32, 1, 2, 10, 300] {
            for busy in [false, true] {
                let cfg = cfg_text(10, d, "q", "w");
                let mut h = vec![];
                h.push(KEv::L(HEv::Press(0, keys[6])));
                h.push(KEv::Gap(3));
                h.push(KEv::L(HEv::Release(0, keys[6])));
                if busy {
                    // typing before the idle time is reached restarts the clock
                    h.push(KEv::Gap(d.saturating_sub(2)));
                    h.push(KEv::L(HEv::Press(0, keys[7])));
                    h.push(KEv::Gap(2));
                    h.push(KEv::L(HEv::Release(0, keys[7])));
                }
                h.push(KEv::Gap(d + extra));
                h.push(KEv::Gap(40));
                lines.push(mk_kline("KAN", false, &cfg, &h));
            }
        }
    }
    // (3b) on-idle with a plain key held through the countdown and beyond: a held key is not idleness
    for d in [5u32, 20, 100] {
        for hold in [d.saturating_sub(2), d + 1, d + 30, 3 * d] {
            for arm_first in [true, false] {
                let cfg = cfg_text(10, d, "q", "w");
                let mut h = vec![];
                if arm_first {
                    h.push(KEv::L(HEv::Press(0, keys[6])));
                    h.push(KEv::Gap(3));
                    h.push(KEv::L(HEv::Release(0, keys[6])));
                    h.push(KEv::Gap(2));
                    h.push(KEv::L(HEv::Press(0, keys[7])));
                } else {
                    h.push(KEv::L(HEv::Press(0, keys[7])));
                    h.push(KEv::Gap(2));
                    h.push(KEv::L(HEv::Press(0, keys[6])));
                    h.push(KEv::Gap(3));
                    h.push(KEv::L(HEv::Release(0, keys[6])));
                }
                h.push(KEv::Gap(hold));
                h.push(KEv::L(HEv::Release(0, keys[7])));
                h.push(KEv::Gap(d + 40));
                lines.push(mk_kline("KAN", false, &cfg, &h));
            }
        }
    }
    // (4) random, unsettled: correspondence only
    let n4 = if thorough { 10000 } else { 1200 };
    for _ in 0..n4 {
        let cfg = cfg_text(*r.pick(&[1u32, 3, 10]), *r.pick(&[5u32, 30]), *r.pick(&["q", "(layer-while-held l1)", "(macro w x)", "(one-shot 20 lsft)"]), *r.pick(&["w", "(tap-hold 0 5 x z)"]));
        let mut h = vec![];
        let mut down: Vec<u16> = vec![];
        for _ in 0..r.range(2, 25) {
            match r.below(6) {
                0 | 1 => {
                    let ups: Vec<u16> = keys.iter().copied().filter(|k| !down.contains(k)).collect();
                    if !ups.is_empty() {
                        let k = *r.pick(&ups);
                        down.push(k);
                        h.push(KEv::L(HEv::Press(0, k)));
                    }
                }
                2 | 3 => {
                    if !down.is_empty() {
                        let i = r.below(down.len() as u64) as usize;
                        let k = down.remove(i);
                        h.push(KEv::L(HEv::Release(0, k)));
                    }
                }
                4 => h.push(KEv::Fake(r.below(4) as u8, 1, r.below(3) as u16)),
                _ => {}
            }
            if r.chance(2, 3) {
                h.push(KEv::L(HEv::Tick(*r.pick(&[1u32, 1, 2, 3, 10, 30]))));
            }
        }
        for k in down {
            h.push(KEv::L(HEv::Release(0, k)));
        }
        h.push(KEv::L(HEv::Tick(100)));
        lines.push(mk_kline("KAN", false, &cfg, &h));
    }
    // (5) virtual keys next to chords v2 (outside the kanata-level model; judged on the real trace):
    // all input passes through the chords-v2 queue, where a pending chord holds physical events
    // back - virtual-key presses AND releases must not wait behind them. `;; held-at-most <code> <n>`
    // tells the model-free oracle how long the virtual key's output may stay down.
    for d in [20u32, 50] {
        let cfg = format!(
            "(defcfg concurrent-tap-hold yes)\n(defvirtualkeys vm lmet)\n(defsrc x a b c)\n(deflayer l0 (hold-for-duration {d} vm) a b (multi (on-press-fakekey vm press) (on-release-fakekey vm release)))\n(defchordsv2 (a b) y 200 all-released ())\n;; held-at-most 125 {}\n",
            d + 120
        );
        for at in [1u32, 5, d - 1, d, d + 1, d + 40] {
            // hold-for-duration started, then a chord key pressed (and kept pending) before it expires
            let h = vec![
                KEv::L(HEv::Press(0, code("x"))), KEv::L(HEv::Tick(3)), KEv::L(HEv::Release(0, code("x"))), KEv::L(HEv::Tick(at)),
                KEv::L(HEv::Press(0, code("a"))), KEv::L(HEv::Tick(400)), KEv::L(HEv::Release(0, code("a"))), KEv::L(HEv::Tick(300)),
            ];
            lines.push(mk_kline("KAN", false, &cfg, &h));
            // (a press/release pair driven by a PHYSICAL key is not bounded this way: the physical release
            // itself waits behind the pending chord key, as chords v2 documents)
        }
    }

    lines
}
