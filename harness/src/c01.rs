//! C01 generator: non-latching whole-grammar configurations, balanced histories (every pressed key is
//! released), then a long quiet tail.
use crate::cfggen::*;
use crate::kan::{mk_kline, KEv};
use crate::lay::HEv;
use crate::rng::Rng;

pub fn gen(tier: &str, seed: u64) -> Vec<String> {
    let mut r = Rng::new(seed ^ 0xC01);
    let thorough = tier == "thorough";
    let mut lines = vec![];
    let n = if thorough { 30000 } else { 3000 };
    for i in 0..n {
        let (cfg, keys) = gen_full_cfg_opt(&mut r, true, true);
        let (n_ev, gaps): (usize, &[u32]) = match i % 6 {
            0 => (r.range(40, 120) as usize, &[0, 0, 0, 1]),      // bursts overflowing the 32-slot queue
            1 => (r.range(2, 20) as usize, &[0, 1, 2, 3]),
            2 => (r.range(2, 20) as usize, &[1, 4, 9, 10, 11, 50]),
            3 => (r.range(2, 16) as usize, &[1, 49, 50, 51, 199, 200, 201]),
            4 => (r.range(10, 40) as usize, &[0, 1, 5]),
            _ => (r.range(1, 8) as usize, &[0, 1, 30, 300]),
        };
        let h = consistent_history(&mut r, &keys, n_ev, gaps, 3000);
        let kh: Vec<KEv> = h.into_iter().map(KEv::L).collect();
        lines.push(mk_kline("KAN", false, &cfg, &kh));
    }
    // configurations outside the kanata-level model (chords v2, sequence mode, dynamic macros): the
    // real code is run all the same and judged by the model-free clause "everything released at the
    // OS after the quiet tail, idle reported"
    {
        let outside: [(&str, &[&str]); 6] = [
            ("(defcfg concurrent-tap-hold yes)\n(defsrc a b c d e)\n(deflayer l0 a b c d e)\n(defchordsv2\n (a b) x 50 all-released ()\n (a b c) y 50 first-release ()\n (c d) (multi lsft z) 50 all-released ())\n", &["a", "b", "c", "d", "e"]),
            ("(defcfg concurrent-tap-hold yes chords-v2-min-idle 20)\n(defsrc a b c d e)\n(deflayer l0 a (tap-hold 50 50 b lctl) c d (layer-while-held l1))\n(deflayer l1 1 2 3 4 _)\n(defchordsv2\n (a b) x 30 first-release (l1)\n (c d) (one-shot 100 lsft) 30 all-released ())\n", &["a", "b", "c", "d", "e"]),
            ("(defcfg sequence-timeout 100)\n(defvirtualkeys v1 (macro x y))\n(defseq v1 (a b))\n(defsrc s a b c)\n(deflayer l0 sldr a b c)\n", &["s", "a", "b", "c"]),
            ("(defcfg sequence-timeout 100 sequence-input-mode hidden-delay-type)\n(defvirtualkeys v1 z v2 (multi lsft y))\n(defseq v1 (a b) v2 (a c))\n(defsrc s a b c)\n(deflayer l0 sldr a b c)\n", &["s", "a", "b", "c"]),
            ("(defcfg sequence-timeout 100 sequence-input-mode visible-backspaced)\n(defvirtualkeys v1 z)\n(defseq v1 (a b c))\n(defsrc s a b c)\n(deflayer l0 sldr a b c)\n", &["s", "a", "b", "c"]),
            ("(defsrc r p a b)\n(deflayer l0 (dynamic-macro-record 1) (dynamic-macro-play 1) a (multi lsft b))\n", &["r", "p", "a", "b"]),
        ];
        let per = if thorough { 400 } else { 60 };
        for (cfg, keys) in outside {
            let keys: Vec<u16> = keys.iter().map(|k| code(k)).collect();
            for i in 0..per {
                let (n_ev, gaps): (usize, &[u32]) = match i % 5 {
                    0 => (r.range(34, 90) as usize, &[0, 0, 0, 1]),
                    1 => (r.range(17, 40) as usize, &[0]),
                    2 => (r.range(2, 16) as usize, &[0, 1, 2, 5]),
                    3 => (r.range(2, 16) as usize, &[1, 29, 30, 31, 49, 50, 51]),
                    _ => (r.range(4, 30) as usize, &[0, 1, 20, 110]),
                };
                let h = consistent_history(&mut r, &keys, n_ev, gaps, 3000);
                let kh: Vec<KEv> = h.into_iter().map(KEv::L).collect();
                lines.push(mk_kline("KAN", false, cfg, &kh));
            }
        }
    }
    // zippychord while caps-word is active (zippychord.rs: the expansion neither releases nor
    // re-presses the shifts then); also outside the model, same model-free clause
    for (ss, cw) in [("full", 200u32), ("none", 40), ("add-space-only", 200)] {
        let (cfg, keys) = zippy_capsword_cfg(ss, cw);
        for i in 0..(if thorough { 300 } else { 40 }) {
            let (n_ev, gaps): (usize, &[u32]) = match i % 4 {
                0 => (r.range(4, 14) as usize, &[1, 2, 3]),
                1 => (r.range(4, 20) as usize, &[0, 1, 2, 5]),
                2 => (r.range(4, 16) as usize, &[1, 5, 29, 30, 31, 41]),
                _ => (r.range(20, 50) as usize, &[0, 0, 1]),
            };
            let h = consistent_history(&mut r, &keys, n_ev, gaps, 3000);
            let kh: Vec<KEv> = h.into_iter().map(KEv::L).collect();
            lines.push(mk_kline("KAN", false, &cfg, &kh));
        }
        // caps-word, then the chords of the dictionary in both orders, with and without a held shift
        let p = |y: &str| KEv::L(HEv::Press(0, code(y)));
        let rl = |y: &str| KEv::L(HEv::Release(0, code(y)));
        let t = |n: u32| KEv::L(HEv::Tick(n));
        for first in [["d", "y"], ["y", "d"]] {
            for held in [None, Some("a"), Some("b")] {
                for follow in [false, true] {
                    let mut h = vec![p("c"), t(3), rl("c"), t(3)];
                    if let Some(m) = held {
                        h.extend([p(m), t(2)]);
                    }
                    h.extend([p(first[0]), t(2), p(first[1]), t(5), rl(first[0]), t(1), rl(first[1]), t(5)]);
                    if follow {
                        h.extend([p("1"), t(4), rl("1"), t(4)]);
                    }
                    if let Some(m) = held {
                        h.extend([rl(m), t(2)]);
                    }
                    h.push(t(3000));
                    lines.push(mk_kline("KAN", false, &cfg, &h));
                }
            }
        }
    }
    // many keys at once: more than 64 states, more than 8 tap-holds, more than 16 one-shots
    let many = ["a", "b", "c", "d", "e", "f", "g", "h", "i", "j", "k", "l", "m", "n", "o", "p", "q", "r", "s", "t"];
    for (name, action) in [
        ("multi", "(multi lsft lctl lalt lmet rsft rctl ralt rmet 1 2 3 4)"),
        ("taphold", "(tap-hold 0 30 x (multi lsft y))"),
        ("oneshot", "(one-shot 100 (layer-while-held l1))"),
        ("macro", "(macro S-(x 20 y) 10 C-(z))"),
        ("chordish", "(tap-dance 20 (x y z))"),
    ] {
        let mut cfg = String::from("(defsrc");
        for k in many {
            cfg.push_str(&format!(" {k}"));
        }
        cfg.push_str(")\n(deflayer l0");
        for _ in many {
            cfg.push_str(&format!(" {action}"));
        }
        cfg.push_str(")\n(deflayer l1");
        for _ in many {
            cfg.push_str(" _");
        }
        cfg.push_str(")\n");
        let _ = name;
        let keys: Vec<u16> = many.iter().map(|k| code(k)).collect();
        for gap in [0u32, 1, 3] {
            let mut h = vec![];
            for k in &keys {
                h.push(KEv::L(HEv::Press(0, *k)));
                if gap > 0 {
                    h.push(KEv::L(HEv::Tick(gap)));
                }
            }
            for k in &keys {
                h.push(KEv::L(HEv::Release(0, *k)));
                if gap > 0 {
                    h.push(KEv::L(HEv::Tick(gap)));
                }
            }
            h.push(KEv::L(HEv::Tick(3000)));
            lines.push(mk_kline("KAN", false, &cfg, &h));
        }
    }
    // the states buffer (64) full when a key with a custom action is pressed: seven keys holding ten key
    // codes each, then the custom key, then everything released in either order
    for custom in ["mlft", "(mwheel-up 20 120)", "(movemouse-left 20 1)", "(unmod y)", "(multi lsft mrgt)"] {
        let ks = ["a", "b", "c", "d", "e", "f", "g", "h"];
        let big = "(multi f13 f14 f15 f16 f17 f18 f19 f20 f21 f22)";
        let mut cfg = String::from("(defsrc a b c d e f g h)\n(deflayer l0");
        for _ in 0..7 {
            cfg.push(' ');
            cfg.push_str(big);
        }
        cfg.push_str(&format!(" {custom})\n"));
        for nheld in [5usize, 6, 7] {
            for custom_first_up in [false, true] {
                let mut h = vec![];
                for k in &ks[..nheld] {
                    h.push(KEv::L(HEv::Press(0, code(k))));
                    h.push(KEv::L(HEv::Tick(2)));
                }
                h.push(KEv::L(HEv::Press(0, code("h"))));
                h.push(KEv::L(HEv::Tick(30)));
                if custom_first_up {
                    h.push(KEv::L(HEv::Release(0, code("h"))));
                    h.push(KEv::L(HEv::Tick(5)));
                }
                for k in &ks[..nheld] {
                    h.push(KEv::L(HEv::Release(0, code(k))));
                    h.push(KEv::L(HEv::Tick(2)));
                }
                if !custom_first_up {
                    h.push(KEv::L(HEv::Release(0, code("h"))));
                }
                h.push(KEv::L(HEv::Tick(3000)));
                lines.push(mk_kline("KAN", false, &cfg, &h));
            }
        }
    }
    // macros whose items act on the OS through custom actions (mouse button, unmod, unshift), cancelled
    // at every millisecond of their run: by releasing the macro key, by pressing another key, by both
    for body in ["x mlft 20 z", "x (unmod y) 20 z", "(unshift w) 5 mrgt 5 q", "S-(x mlft) 10 y"] {
        for form in ["macro-release-cancel", "macro-cancel-on-press", "macro-release-cancel-and-cancel-on-press", "macro-repeat-release-cancel", "macro"] {
            let cfg = format!("(defsrc a b)\n(deflayer l0 ({form} {body}) b)\n");
            for off in 1..=12u32 {
                // release of the macro key `off` ms after the press
                let h = vec![KEv::L(HEv::Press(0, code("a"))), KEv::L(HEv::Tick(off)), KEv::L(HEv::Release(0, code("a"))), KEv::L(HEv::Tick(3000))];
                lines.push(mk_kline("KAN", false, &cfg, &h));
                // tap of the macro key, another key pressed `off` ms after the press
                let h = vec![
                    KEv::L(HEv::Press(0, code("a"))),
                    KEv::L(HEv::Tick(1)),
                    KEv::L(HEv::Release(0, code("a"))),
                    KEv::L(HEv::Tick(off)),
                    KEv::L(HEv::Press(0, code("b"))),
                    KEv::L(HEv::Tick(5)),
                    KEv::L(HEv::Release(0, code("b"))),
                    KEv::L(HEv::Tick(3000)),
                ];
                lines.push(mk_kline("KAN", false, &cfg, &h));
            }
        }
    }
    // pointer movement in all its forms (src/kanata/mod.rs handle_move_mouse and the MoveMouse /
    // MoveMouseAccel / MoveMouseSpeed arms): the acceleration ramp up to and past its end, both axes
    // moving at once with and without movemouse-smooth-diagonals (movemouse_buffer, move_mouse_many),
    // movemouse-inherit-accel-state (a second accelerated key takes over the ramp of the first), and
    // several mouse buttons held by one key (only the last is released by the Release handler, the
    // earlier ones are let go when the next is clicked)
    for (smooth, inherit) in [(false, false), (true, false), (false, true), (true, true)] {
        let cfg = format!(
            "(defcfg{}{})\n(defsrc a b c d e f)\n(deflayer l0 (movemouse-accel-up 2 6 1 9) (movemouse-accel-left 3 10 2 20) (movemouse-down 2 3) (movemouse-right 5 1) (movemouse-speed 200) (multi mlft mrgt mmid))\n",
            if smooth { " movemouse-smooth-diagonals yes" } else { "" },
            if inherit { " movemouse-inherit-accel-state yes" } else { "" }
        );
        let ks: Vec<u16> = ["a", "b", "c", "d", "e", "f"].iter().map(|k| code(k)).collect();
        // every history of two events over the four movement keys, short and long gaps
        for h in all_histories(&ks[..4], 2, &[1, 13], 3000) {
            let kh: Vec<KEv> = h.into_iter().map(KEv::L).collect();
            lines.push(mk_kline("KAN", false, &cfg, &kh));
        }
        for i in 0..(if thorough { 300 } else { 30 }) {
            let (n_ev, gaps): (usize, &[u32]) = match i % 3 {
                0 => (r.range(3, 10) as usize, &[1, 2, 3, 7]),
                1 => (r.range(3, 14) as usize, &[0, 1, 5, 6, 7, 11]),
                _ => (r.range(6, 24) as usize, &[0, 0, 1, 2]),
            };
            let h = consistent_history(&mut r, &ks, n_ev, gaps, 3000);
            let kh: Vec<KEv> = h.into_iter().map(KEv::L).collect();
            lines.push(mk_kline("KAN", false, &cfg, &kh));
        }
    }
    // two wheel keys of one axis held at once: the second takes over the scroll state, and the release
    // of the first must leave it alone (Release handler, MWheel arm: direction differs)
    {
        let cfg = "(defsrc a b c d)\n(deflayer l0 (mwheel-up 5 120) (mwheel-down 7 120) (mwheel-left 5 120) (mwheel-right 7 120))\n";
        let ks: Vec<u16> = ["a", "b", "c", "d"].iter().map(|k| code(k)).collect();
        for (n, gaps) in [(2usize, &[1u32, 9][..]), (3, &[3u32][..])] {
            for h in all_histories(&ks, n, gaps, 3000) {
                let kh: Vec<KEv> = h.into_iter().map(KEv::L).collect();
                lines.push(mk_kline("KAN", false, cfg, &kh));
            }
        }
    }
    // `rpt` while caps-word is active (the Repeat arm of handle_keystate_changes presses and releases
    // LShift around the repeated key itself) and the toggling caps-word forms (CapsWord arm, Toggle)
    {
        let cfg = "(defsrc a b c d)\n(deflayer l0 (caps-word 60) q rpt (caps-word-toggle 60))\n";
        let ks: Vec<u16> = ["a", "b", "c", "d"].iter().map(|k| code(k)).collect();
        for h in all_histories(&ks, 3, &[2], 3000) {
            let kh: Vec<KEv> = h.into_iter().map(KEv::L).collect();
            lines.push(mk_kline("KAN", false, cfg, &kh));
        }
        for i in 0..(if thorough { 400 } else { 60 }) {
            let gaps: &[u32] = if i % 2 == 0 { &[1, 2, 3] } else { &[1, 5, 59, 60, 61] };
            let n_ev = r.range(4, 14) as usize;
            let h = consistent_history(&mut r, &ks, n_ev, gaps, 3000);
            let kh: Vec<KEv> = h.into_iter().map(KEv::L).collect();
            lines.push(mk_kline("KAN", false, cfg, &kh));
        }
    }
    // chv2: whole-grammar configurations with a `defchordsv2` table, balanced histories, long tail
    {
        let mut r2 = Rng::new(seed ^ 0xC01C2);
        for i in 0..(if thorough { 5000 } else { 400 }) {
            let (cfg, keys) = crate::chv2gen::gen_full_cfg_chv2(&mut r2, true);
            let gaps: &[u32] = match i % 3 {
                0 => &[0, 1, 2, 3, 5],
                1 => &[1, 4, 19, 20, 21, 49, 50, 51],
                _ => &[0, 1, 30, 200],
            };
            let n_ev = r2.range(2, 24) as usize;
            let h = consistent_history(&mut r2, &keys, n_ev, gaps, 3000);
            let kh: Vec<KEv> = h.into_iter().map(KEv::L).collect();
            lines.push(mk_kline("KAN", false, &cfg, &kh));
        }
    }
    lines
}
