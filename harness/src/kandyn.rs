//! Dynamic macros at the kanata level (`KAN` lines): what harness/src/kan.rs needs for
//! configurations with `dynamic-macro-record` / `-play` / `-record-stop(-truncate)`, kept out of
//! kan.rs so that that file only carries the calls.
//!
//! * `dyn_section`: ` DYN <max-presses> <behaviour> <fix> DMH n (vt len osc*)* DMH2 n (…)*` appended to
//!   the `KANX` line: the two options, whether the tree has the `pop()` fix, and the order in which
//!   the real `add_release_for_all_unreleased_presses` walked its hash set each time a macro was
//!   saved (the model cannot compute FxHashSet order; it validates the hint: it must be a
//!   permutation of the keys left down), for the blocking run (`DMH`) and the always-ticking run
//!   (`DMH2`), stamped with the virtual time before the step that saved the macro.
//! * `Obs`: the observer inside `kan::Runner` that collects those orders.
//! * `digest`: `M rec=… rep=… st=…`, the dynamic-macro state at the end of a run (hook digests).
//! * `gen_lines`: generated `KAN` cases over whole-grammar and layered configurations extended with
//!   dynamic-macro keys.
use crate::cfggen::*;
use crate::kan::{mk_kline, KEv};
use crate::lay::HEv;
use crate::rng::Rng;
use kanata_parser::cfg;
use kanata_parser::cfg::ReplayDelayBehaviour;
use kanata_state_machine::kanata::verif_dynamic_macro as dm;
use kanata_state_machine::Kanata;
use rustc_hash::FxHashMap;

pub fn uses_dyn(serialised: &str) -> bool {
    serialised.split_whitespace().any(|t| t == "dmr" || t == "dms" || t == "dmp")
}

/// does `stop_macro` / `begin_record_macro` tolerate an empty recording (the `pop()` fix)?
fn fix_pop() -> bool {
    std::panic::catch_unwind(|| {
        let mut st = None;
        dm::begin_record_macro(1, &mut st);
        dm::stop_macro(&mut st, 0);
    })
    .is_ok()
}

fn tail_hint(items: &[dm::DynamicMacroItem]) -> Vec<u16> {
    let mut v = vec![];
    for it in items.iter().rev() {
        match it {
            dm::DynamicMacroItem::Release((o, 0)) => v.push(u16::from(*o)),
            _ => break,
        }
    }
    v.reverse();
    v
}

#[derive(Default)]
pub struct Obs {
    prev: FxHashMap<u16, Vec<dm::DynamicMacroItem>>,
    pub hints: Vec<(u64, Vec<u16>)>,
}

impl Obs {
    /// called after every `tick_ms` / `handle_input_event`; `vt0` = virtual time before the step
    pub fn observe(&mut self, k: &Kanata, vt0: u64) {
        if k.dynamic_macros.is_empty() {
            return;
        }
        let mut ids: Vec<u16> = k.dynamic_macros.keys().copied().collect();
        ids.sort();
        for id in ids {
            let items = &k.dynamic_macros[&id];
            if self.prev.get(&id) != Some(items) {
                let t = tail_hint(items);
                if t.len() >= 2 {
                    self.hints.push((vt0, t));
                }
                self.prev.insert(id, items.clone());
            }
        }
    }
}

fn sched_str(tag: &str, h: &[(u64, Vec<u16>)]) -> String {
    let mut s = format!("{tag} {}", h.len());
    for (vt, o) in h {
        s.push_str(&format!(" {vt} {}", o.len()));
        for x in o {
            s.push_str(&format!(" {x}"));
        }
    }
    s
}

/// the ` DYN …` section of an expanded line ("" for configurations without dynamic macros)
pub fn dyn_section(c: &cfg::Cfg, cfg_text: &str, hist: &[KEv], serialised: &str) -> String {
    if !uses_dyn(serialised) {
        return String::new();
    }
    let loop_mode = hist.iter().any(|e| matches!(e, KEv::Gap(_)));
    let run = |always: bool| -> Vec<(u64, Vec<u16>)> {
        let text = cfg_text.to_string();
        let h = hist.to_vec();
        std::panic::catch_unwind(move || {
            let mut r = match crate::kan::Runner::new(&text) {
                Ok(r) => r,
                Err(_) => return vec![],
            };
            if always {
                crate::kan::run_hist_always_ticking(&mut r, &h);
            } else {
                crate::kan::run_hist(&mut r, &h, loop_mode, false);
            }
            r.dyn_obs.hints.clone()
        })
        .unwrap_or_default()
    };
    let s1 = run(false);
    let s2 = if loop_mode { run(true) } else { vec![] };
    format!(
        " DYN {} {} {} {} {}",
        c.options.dynamic_macro_max_presses,
        if c.options.dynamic_macro_replay_delay_behaviour == ReplayDelayBehaviour::Constant { 0 } else { 1 },
        fix_pop() as u8,
        sched_str("DMH", &s1),
        sched_str("DMH2", &s2)
    )
}

fn items_str(items: &[dm::DynamicMacroItem]) -> String {
    let v: Vec<String> = items.iter().map(dm::verif_item_digest).collect();
    if v.is_empty() {
        "-".to_string()
    } else {
        v.join(",")
    }
}

/// `M rec=<digest|-> rep=<digest|-> st=<id=[items];…|->`
pub fn digest(k: &Kanata) -> String {
    let rc = k.dynamic_macro_record_state.as_ref().map(|r| r.verif_digest()).unwrap_or("-".into());
    let rp = k.dynamic_macro_replay_state.as_ref().map(|r| r.verif_digest()).unwrap_or("-".into());
    let mut ids: Vec<u16> = k.dynamic_macros.keys().copied().collect();
    ids.sort();
    let v: Vec<String> = ids.iter().map(|i| format!("{}=[{}]", i, items_str(&k.dynamic_macros[i]))).collect();
    format!("M rec={rc} rep={rp} st={}", if v.is_empty() { "-".to_string() } else { v.join(";") })
}

// ------------------------------------------------------------------------------- generator

/// physical keys that carry the dynamic-macro actions (outside `cfggen::KEYS` and `OUT_KEYS`)
pub const DYN_KEYS: [&str; 4] = ["i", "j", "k", "l"];

/// `cfg` (one top-level item per line, as `cfggen` writes them) with four more physical keys:
/// record 1, play 1, stop, and one drawn from the rest of the dynamic-macro grammar; the two defcfg
/// options are drawn too. Returns the text and the codes of the four keys.
pub fn add_dyn_keys(r: &mut Rng, cfg_text: &str) -> (String, [u16; 4]) {
    let fourth = match r.below(10) {
        0 => "(dynamic-macro-record 2)".to_string(),
        1 => "(dynamic-macro-play 2)".to_string(),
        2 | 3 => format!("(dynamic-macro-record-stop-truncate {})", r.pick(&[1u32, 2, 3, 9])),
        4 => "(multi (dynamic-macro-play 1) x)".to_string(),
        5 => "(multi y (dynamic-macro-record 1))".to_string(),
        6 => "(multi (dynamic-macro-record 2) (dynamic-macro-play 1))".to_string(),
        7 => "(tap-hold 0 10 (dynamic-macro-play 1) (dynamic-macro-record 2))".to_string(),
        8 => "(macro (dynamic-macro-play 1) 5 z)".to_string(),
        _ => "(multi (dynamic-macro-play 2) (dynamic-macro-play 1))".to_string(),
    };
    let acts = format!(" (dynamic-macro-record 1) (dynamic-macro-play 1) dynamic-macro-record-stop {fourth}");
    let mut opts = String::new();
    if r.chance(1, 2) {
        opts.push_str(&format!(" dynamic-macro-max-presses {}", r.pick(&[0u32, 1, 2, 3, 5, 128])));
    }
    if r.chance(1, 2) {
        opts.push_str(&format!(" dynamic-macro-replay-delay-behaviour {}", r.pick(&["constant", "recorded"])));
    }
    let mut out = String::new();
    let mut have_defcfg = false;
    for line in cfg_text.lines() {
        let body = line.trim_end();
        if body.starts_with("(defcfg") && body.ends_with(')') {
            have_defcfg = true;
            out.push_str(&format!("{}{})\n", &body[..body.len() - 1], opts));
        } else if body.starts_with("(defsrc") && body.ends_with(')') {
            out.push_str(&format!("{} {})\n", &body[..body.len() - 1], DYN_KEYS.join(" ")));
        } else if body.starts_with("(deflayer l0") && body.ends_with(')') {
            out.push_str(&format!("{}{})\n", &body[..body.len() - 1], acts));
        } else if body.starts_with("(deflayer") && body.ends_with(')') {
            out.push_str(&format!("{} _ _ _ _)\n", &body[..body.len() - 1]));
        } else {
            out.push_str(body);
            out.push('\n');
        }
    }
    if !have_defcfg && !opts.is_empty() {
        out = format!("(defcfg{opts})\n{out}");
    }
    (out, [code(DYN_KEYS[0]), code(DYN_KEYS[1]), code(DYN_KEYS[2]), code(DYN_KEYS[3])])
}

/// a configuration of the layered fragment (plain keys, layer-while-held, transparent): output does
/// not depend on timing
fn layered_cfg(r: &mut Rng) -> (String, Vec<u16>) {
    let nkeys = r.range(2, 5) as usize;
    let nlayers = r.range(1, 3) as usize;
    let mut s = String::from("(defsrc");
    for k in &KEYS[..nkeys] {
        s.push_str(&format!(" {k}"));
    }
    s.push_str(")\n");
    for l in 0..nlayers {
        s.push_str(&format!("(deflayer l{l}"));
        for _ in 0..nkeys {
            let a = match r.below(8) {
                0 => format!("(layer-while-held l{})", r.below(nlayers as u64)),
                1 => "_".to_string(),
                2 => "XX".to_string(),
                _ => (*r.pick(&OUT_KEYS)).to_string(),
            };
            s.push_str(&format!(" {a}"));
        }
        s.push_str(")\n");
    }
    (s, KEYS[..nkeys].iter().map(|k| code(k)).collect())
}

fn tap(h: &mut Vec<KEv>, key: u16, hold: u32, after: u32) {
    h.push(KEv::L(HEv::Press(0, key)));
    if hold > 0 {
        h.push(KEv::L(HEv::Tick(hold)));
    }
    h.push(KEv::L(HEv::Release(0, key)));
    if after > 0 {
        h.push(KEv::L(HEv::Tick(after)));
    }
}

fn typed(r: &mut Rng, keys: &[u16], n: usize, gaps: &[u32], release_all: bool, h: &mut Vec<KEv>, down: &mut Vec<u16>) -> u32 {
    let mut total = 0;
    for _ in 0..n {
        let press = down.is_empty() || (down.len() < keys.len() && r.chance(3, 5));
        if press {
            let ups: Vec<u16> = keys.iter().copied().filter(|k| !down.contains(k)).collect();
            let k = *r.pick(&ups);
            down.push(k);
            h.push(KEv::L(HEv::Press(0, k)));
        } else {
            let i = r.below(down.len() as u64) as usize;
            let k = down.remove(i);
            h.push(KEv::L(HEv::Release(0, k)));
        }
        let g = *r.pick(gaps);
        if g > 0 {
            h.push(KEv::L(HEv::Tick(g)));
            total += g;
        }
    }
    if release_all {
        while let Some(k) = down.pop() {
            h.push(KEv::L(HEv::Release(0, k)));
            let g = std::cmp::max(1, *r.pick(gaps));
            h.push(KEv::L(HEv::Tick(g)));
            total += g;
        }
    }
    total
}

/// record; type; stop (one of three ways); idle; play; wait; variations around it
fn scenario(r: &mut Rng, keys: &[u16], dk: &[u16; 4], loop_mode: bool) -> Vec<KEv> {
    let (rec, play, stop, fourth) = (dk[0], dk[1], dk[2], dk[3]);
    let gaps: &[u32] = match r.below(4) {
        0 => &[1, 1, 2, 3],
        1 => &[0, 1, 4, 11],
        2 => &[1, 2, 50, 201],
        _ => &[0, 0, 1, 30],
    };
    let mut h = vec![];
    let mut down = vec![];
    if r.chance(1, 3) {
        // something typed (and possibly held) before the recording starts
        let n = r.range(1, 4) as usize;
        let rel = r.chance(1, 2);
        typed(r, keys, n, gaps, rel, &mut h, &mut down);
    }
    tap(&mut h, rec, r.below(3) as u32, r.range(1, 5) as u32);
    let n = if r.chance(1, 8) { r.range(20, 45) } else { r.range(0, 10) } as usize;
    let rel = r.chance(3, 4);
    let mut dur = typed(r, keys, n, gaps, rel, &mut h, &mut down);
    match r.below(6) {
        0 => tap(&mut h, rec, 1, 1),    // same id: save and stop
        1 => tap(&mut h, fourth, 1, 1), // whatever the fourth key is
        2 => {}                         // no stop: the play key is recorded too
        _ => tap(&mut h, stop, r.below(2) as u32, 1),
    }
    // let it settle (or not)
    let settle = *r.pick(&[0u32, 1, 3, 60, 300]);
    if settle > 0 {
        h.push(if loop_mode { KEv::Gap(settle) } else { KEv::L(HEv::Tick(settle)) });
    }
    while let Some(k) = down.pop() {
        if r.chance(2, 3) {
            h.push(KEv::L(HEv::Release(0, k)));
            h.push(KEv::L(HEv::Tick(1)));
        }
    }
    let plays = r.range(1, 3);
    for _ in 0..plays {
        let pk = if r.chance(1, 6) { fourth } else { play };
        tap(&mut h, pk, r.below(3) as u32, 0);
        dur = std::cmp::min(dur, 1500);
        match r.below(5) {
            0 => {
                // typing while the replay runs
                let n = r.range(1, 4) as usize;
                typed(r, keys, n, &[1, 3, 7], true, &mut h, &mut down);
            }
            1 => {
                // play pressed again during the replay
                h.push(KEv::L(HEv::Tick(r.range(1, 12) as u32)));
                tap(&mut h, play, 1, 0);
            }
            _ => {}
        }
        let wait = dur + 6 * (n as u32 + 4) + 250;
        h.push(if loop_mode { KEv::Gap(wait) } else { KEv::L(HEv::Tick(wait)) });
    }
    h.push(if loop_mode { KEv::Gap(400) } else { KEv::L(HEv::Tick(400)) });
    h
}

pub fn gen_lines(tier: &str, seed: u64, n_quick: usize) -> Vec<String> {
    let mut r = Rng::new(seed ^ 0xD7_4A_C0);
    let n = if tier == "thorough" { n_quick * 8 } else { n_quick };
    let mut lines = vec![];
    for i in 0..n {
        let (base, keys) = match i % 5 {
            0 | 1 => layered_cfg(&mut r),
            2 => gen_full_cfg_opt(&mut r, false, false),
            _ => gen_full_cfg_opt(&mut r, true, false),
        };
        let (cfg, dk) = add_dyn_keys(&mut r, &base);
    // dynamic macros next to sequence mode and / or chords v2 (both are part of the kanata-level model)
    let (cfg, keys) = if i % 10 == 9 {
        let extra = match (i / 10) % 3 {
            0 => "(defvirtualkeys vs1 z)\n(defseq vs1 (a b))\n",
            1 => "(defchordsv2 (a b) y 30 all-released ())\n",
            _ => "(defvirtualkeys vs1 z)\n(defseq vs1 (a b))\n(defchordsv2 (a b) y 30 all-released ())\n",
        };
        let defcfg = if (i / 10) % 3 == 0 { "" } else { "(defcfg concurrent-tap-hold yes)\n" };
        let t = format!(
            "{defcfg}(defsrc a b c {})\n{extra}(deflayer l0 a b {} (dynamic-macro-record 1) (dynamic-macro-play 1) dynamic-macro-record-stop (dynamic-macro-record-stop-truncate 1))\n",
            DYN_KEYS.join(" "),
            if (i / 10) % 3 == 1 { "c" } else { "sldr" }
        );
        (t, vec![code("a"), code("b"), code("c")])
    } else {
        (cfg, keys)
    };
        let loop_mode = i % 7 == 3;
        let h = if i % 4 == 3 {
            // unstructured: any history over all the keys
            let mut all = keys.clone();
            all.extend_from_slice(&dk);
            let n_ev = r.range(2, 30) as usize;
            let hh = consistent_history(&mut r, &all, n_ev, &[0, 1, 2, 6, 40], 900);
            let mut kh: Vec<KEv> = vec![];
            let mut down: Vec<u16> = vec![];
            for e in hh {
                match &e {
                    HEv::Press(_, y) => down.push(*y),
                    HEv::Release(_, y) => down.retain(|k| k != y),
                    _ => {}
                }
                match e {
                    HEv::Tick(t) if loop_mode => kh.push(KEv::Gap(t)),
                    e => kh.push(KEv::L(e)),
                }
                if !down.is_empty() && r.chance(1, 8) {
                    kh.push(KEv::Rep(*r.pick(&down)));
                }
            }
            kh
        } else {
            scenario(&mut r, &keys, &dk, loop_mode)
        };
        lines.push(mk_kline("KAN", false, &cfg, &h));
    }
    lines
}
