//! C17 generator: tap-dance keys (lazy and eager) whose listed actions are marker keys used nowhere
//! else (optionally a layer-while-held at one position, or a tap-hold with its own markers at the
//! last position), one plain key `b` (which has a different marker on the layer the dance can
//! hold), exhaustive small schedules with gaps around the dance timeout, and random longer ones.
//! eval / expand are the shared `lay::eval` / `lay::expand`.
use crate::cfggen::*;
use crate::lay::{mk_line, HEv};
use crate::rng::Rng;

/// markers of the list positions
const M: [&str; 4] = ["q", "w", "x", "y"];

#[derive(Clone, Copy, PartialEq)]
pub enum Special {
    None,
    /// position `i` (0-based) is `(layer-while-held l1)`
    Layer(usize),
    /// the last position is a tap-hold with markers 1 (tap) / 2 (hold)
    TapHoldLast(u32),
}

pub struct Td {
    pub len: usize,
    pub eager: bool,
    pub t: u32,
    pub special: Special,
    /// rapid-event-delay (None = kanata's default, 5)
    pub red: Option<u16>,
}

pub fn cfg_text(td: &Td) -> String {
    let mut s = String::from("(defcfg");
    if let Some(d) = td.red {
        s.push_str(&format!(" rapid-event-delay {d}"));
    }
    s.push_str(")\n(defsrc a b)\n(deflayer l0 (");
    s.push_str(if td.eager { "tap-dance-eager" } else { "tap-dance" });
    s.push_str(&format!(" {} (", td.t));
    for i in 0..td.len {
        if i > 0 {
            s.push(' ');
        }
        match td.special {
            Special::Layer(p) if p == i => s.push_str("(layer-while-held l1)"),
            Special::TapHoldLast(th) if i + 1 == td.len => s.push_str(&format!("(tap-hold 0 {th} 1 2)")),
            _ => s.push_str(M[i]),
        }
    }
    s.push_str(")) b)\n(deflayer l1 _ z)\n");
    s
}

/// Family (6), aimed at keyberon/src/layout.rs `event`'s overflow path with a tap-dance pending
/// (`waiting_into_hold`, arm `WaitingConfig::TapDance`: the pending dance is resolved to its - empty -
/// hold action and the oldest event is processed at once) and at the eager dance's index after a
/// flood: more than 32 events arrive between two ticks while the dance waits.
fn flood_family(lines: &mut Vec<String>) {
    let (ka, kb) = (code("a"), code("b"));
    for eager in [false, true] {
        for t in [10u32, 200] {
            for special in [Special::None, Special::Layer(1), Special::TapHoldLast(5)] {
                let td = Td { len: 3, eager, t, special, red: Some(0) };
                let cfg = cfg_text(&td);
                // histories that END while the dance is pending: the final digest then compares
                // the waiting state (tap count, countdown) / the eager state with the model
                for j in [1u32, 2, t - 1] {
                    lines.push(mk_line("LAY", false, &cfg, &[HEv::Press(0, ka), HEv::Tick(j)]));
                    lines.push(mk_line("LAY", false, &cfg, &[HEv::Press(0, ka), HEv::Tick(1), HEv::Release(0, ka), HEv::Tick(1), HEv::Press(0, ka), HEv::Tick(j)]));
                    lines.push(mk_line("LAY", false, &cfg, &[HEv::Press(0, ka), HEv::Release(0, ka), HEv::Press(0, kb), HEv::Tick(j)]));
                }
                for n in [30usize, 31, 32, 33, 40] {
                    for lead in [0u32, 2] {
                        for pat in 0..3 {
                            // pat 0: the plain key only; 1: the dance key only (taps beyond the list);
                            // 2: alternating
                            let mut h = vec![HEv::Press(0, ka)];
                            if lead > 0 {
                                h.push(HEv::Tick(lead));
                            }
                            h.push(HEv::Release(0, ka));
                            let mut down_a = false;
                            let mut down_b = false;
                            for i in 0..n {
                                let use_a = match pat {
                                    0 => false,
                                    1 => true,
                                    _ => (i / 2) % 2 == 0,
                                };
                                if use_a {
                                    h.push(if down_a { HEv::Release(0, ka) } else { HEv::Press(0, ka) });
                                    down_a = !down_a;
                                } else {
                                    h.push(if down_b { HEv::Release(0, kb) } else { HEv::Press(0, kb) });
                                    down_b = !down_b;
                                }
                            }
                            if down_a {
                                h.push(HEv::Release(0, ka));
                            }
                            if down_b {
                                h.push(HEv::Release(0, kb));
                            }
                            h.push(HEv::Tick(if t >= 100 { 450 } else { 250 }));
                            lines.push(mk_line("LAY", false, &cfg, &h));
                        }
                    }
                }
            }
        }
    }
}

/// Family (7) `intent`: dance lists that mix plain marker keys with actions the parser REBUILDS after
/// parsing (`fill_chords`, the second half of `resolve_chord_groups`: everything that contains a
/// `switch` or an old-style `chord`, alone or inside fork / multi), lazy and eager, at every position.
/// The layout model runs on what the real parser built, so a parser that builds the wrong list is
/// invisible to the correspondence; these cases carry the INTENT in the configuration text
/// (`;; dance-expect <eager 0|1> <T> <key code of position 1> <...>`), and the runner's model-free
/// oracle (`runner/props.py: _c17_intent_oracle`) judges the N-th tap against it.  Histories are
/// complete taps a few ticks apart (well inside T), optionally followed by a tap of the plain key.
fn intent_family(lines: &mut Vec<String>, thorough: bool) {
    let (ka, kb) = (code("a"), code("b"));
    // shape of one position with marker `m` (its chord-group key is `k<m>`)
    let shape = |kind: usize, m: &str| -> String {
        match kind {
            0 => m.to_string(),
            1 => format!("(switch () {m} break)"),
            2 => format!("(fork (switch () {m} break) n (lsft))"),
            3 => format!("(multi (switch () {m} break) (switch () XX break))"),
            _ => format!("(chord grp k{m})"),
        }
    };
    let t = 50u32;
    for len in 2..=3usize {
        let n_shapes = 5usize.pow(len as u32);
        for sh in 0..n_shapes {
            let kinds: Vec<usize> = (0..len).map(|i| (sh / 5usize.pow(i as u32)) % 5).collect();
            // at least one rebuilt action and at least one plain one
            if kinds.iter().all(|k| *k == 0) || kinds.iter().all(|k| *k != 0) {
                continue;
            }
            if !thorough && len == 3 && kinds.iter().filter(|k| **k >= 2).count() > 1 {
                continue;
            }
            for eager in [false, true] {
                // a chord action needs its own timeout to resolve: not judged in the eager form
                if eager && kinds.contains(&4) {
                    continue;
                }
                let list: Vec<String> = (0..len).map(|i| shape(kinds[i], M[i])).collect();
                let expect: Vec<String> = (0..len).map(|i| code(M[i]).to_string()).collect();
                // a chord group may only define keys that are used
                let used: Vec<String> = (0..len).filter(|i| kinds[*i] == 4).map(|i| format!("(k{}) {}", M[i], M[i])).collect();
                let defchords = if used.is_empty() { String::new() } else { format!("(defchords grp 20 {})\n", used.join(" ")) };
                let cfg = format!(
                    "(defcfg rapid-event-delay 0)\n(defsrc a b)\n{defchords}(deflayer l0 ({} {t} ({})) b)\n(deflayer l1 _ z)\n;; dance-expect {} {t} {}\n",
                    if eager { "tap-dance-eager" } else { "tap-dance" },
                    list.join(" "),
                    if eager { 1 } else { 0 },
                    expect.join(" ")
                );
                for n in 1..=len + 1 {
                    for with_b in [false, true] {
                        for g in [2u32, 4] {
                            if g == 4 && (with_b || n > len) {
                                continue;
                            }
                            let mut h = vec![];
                            for _ in 0..n {
                                h.push(HEv::Press(0, ka));
                                h.push(HEv::Tick(g));
                                h.push(HEv::Release(0, ka));
                                h.push(HEv::Tick(g));
                            }
                            if with_b {
                                h.push(HEv::Press(0, kb));
                                h.push(HEv::Tick(g));
                                h.push(HEv::Release(0, kb));
                                h.push(HEv::Tick(g));
                            }
                            h.push(HEv::Tick(t + 100));
                            lines.push(mk_line("LAY", false, &cfg, &h));
                        }
                    }
                }
            }
        }
    }
}

pub fn gen(tier: &str, seed: u64) -> Vec<String> {
    let mut r = Rng::new(seed ^ 0xC17);
    let thorough = tier == "thorough";
    let mut lines = vec![];
    if tier == "intent" {
        intent_family(&mut lines, false);
        return lines;
    }
    if tier == "cov" || tier == "covt" {
        // only the families that were added to reach otherwise unexecuted code (debugging aid;
        // "covt" = their thorough-tier size)
        flood_family(&mut lines);
        return lines;
    }
    let (ka, kb) = (code("a"), code("b"));
    let tail = |t: u32| if t >= 100 { 450 } else { 250 };
    let gaps_of = |t: u32| -> Vec<u32> { vec![0, 1, t - 1, t, t + 1] };
    let mut ex = |td: &Td, n_max: usize, full_upto: usize, lines: &mut Vec<String>| {
        let cfg = cfg_text(td);
        let gaps = gaps_of(td.t);
        for n in 1..=n_max {
            // beyond `full_upto` events: the three gaps that decide (just inside, on, just outside)
            let g: Vec<u32> = if n <= full_upto { gaps.clone() } else { vec![1, td.t - 1, td.t] };
            for h in all_histories(&[ka, kb], n, &g, tail(td.t)) {
                lines.push(mk_line("LAY", false, &cfg, &h));
            }
        }
    };
    // (0) the parser accepts an empty list (finding: index out of bounds at run time)
    for eager in [false, true] {
        let cfg = format!(
            "(defcfg)\n(defsrc a b)\n(deflayer l0 ({} 200 ()) b)\n(deflayer l1 _ z)\n",
            if eager { "tap-dance-eager" } else { "tap-dance" }
        );
        lines.push(mk_line("LAY", false, &cfg, &[HEv::Press(0, ka), HEv::Tick(5), HEv::Release(0, ka), HEv::Tick(300)]));
        lines.push(mk_line("LAY", false, &cfg, &[HEv::Press(0, kb), HEv::Tick(5), HEv::Release(0, kb), HEv::Tick(300)]));
    }
    // (1) marker lists: every length x form x timeout, exhaustive schedules
    for len in 1..=4usize {
        for eager in [false, true] {
            for t in [3u32, 10, 200] {
                let td = Td { len, eager, t, special: Special::None, red: Some(0) };
                let (n_max, full) = if thorough {
                    if t == 3 { (6, 4) } else if t == 10 { (5, 4) } else { (4, 4) }
                } else if t == 3 && len == 3 {
                    (5, 4)
                } else if t == 200 {
                    (3, 3)
                } else {
                    (4, 3)
                };
                ex(&td, n_max, full, &mut lines);
            }
        }
    }
    // (1b) thorough: up to 8 events with the two gaps "well inside" and "on the deadline"
    if thorough {
        for eager in [false, true] {
            let td = Td { len: 3, eager, t: 3, special: Special::None, red: Some(0) };
            let cfg = cfg_text(&td);
            for n in 7..=8 {
                for h in all_histories(&[ka, kb], n, &[1, 3], tail(3)) {
                    lines.push(mk_line("LAY", false, &cfg, &h));
                }
            }
        }
    }
    // (2) the default rapid-event delay (input processing pauses after the chosen action)
    for eager in [false, true] {
        for len in [2usize, 3] {
            let td = Td { len, eager, t: 3, special: Special::None, red: None };
            ex(&td, if thorough { 5 } else { 4 }, 3, &mut lines);
        }
    }
    // (3) a layer-while-held at each position; a tap-hold at the last position
    for eager in [false, true] {
        for len in 1..=3usize {
            for p in 0..len {
                let td = Td { len, eager, t: 3, special: Special::Layer(p), red: Some(0) };
                ex(&td, if thorough { 5 } else { 4 }, 3, &mut lines);
            }
            for th in [2u32, 5] {
                let td = Td { len, eager, t: 3, special: Special::TapHoldLast(th), red: Some(0) };
                ex(&td, if thorough { 5 } else { 4 }, 3, &mut lines);
            }
        }
    }
    // (5) two tap-dance keys (each counts its own taps; a press of the other key ends a dance), in
    // all four lazy/eager combinations, and a plain key
    {
        let kc = code("c");
        for (ea, eb) in [(true, true), (true, false), (false, true), (false, false)] {
            for t in [3u32, 10] {
                for (la, lb) in [(3usize, 3usize), (2, 3), (1, 2)] {
                    let ma = ["q", "w", "x"][..la].join(" ");
                    let mb = ["1", "2", "3"][..lb].join(" ");
                    let cfg = format!(
                        "(defcfg rapid-event-delay 0)\n(defsrc a b c)\n(deflayer l0 ({} {t} ({ma})) ({} {} ({mb})) c)\n",
                        if ea { "tap-dance-eager" } else { "tap-dance" },
                        if eb { "tap-dance-eager" } else { "tap-dance" },
                        t + 2
                    );
                    let n_max = if thorough { 6 } else if (la, lb) == (3, 3) { 5 } else { 4 };
                    for n in 2..=n_max {
                        let g: Vec<u32> = if n <= 3 { vec![0, 1, t - 1, t, t + 1] } else if n <= 4 { vec![1, t - 1, t + 1] } else { vec![1, t + 3] };
                        for h in all_histories(&[ka, kb], n, &g, tail(t)) {
                            lines.push(mk_line("LAY", false, &cfg, &h));
                        }
                    }
                    // every tap complete (press, release) - the way a user types: a^i b^j a^k
                    for (i, j, k) in [(1usize, 1usize, 1usize), (1, 2, 0), (1, 3, 0), (2, 2, 1), (1, 3, 2), (3, 1, 3), (2, 3, 2)] {
                        for gap in [1u32, 2, t - 1] {
                            let mut h = vec![];
                            for (key, cnt) in [(ka, i), (kb, j), (ka, k)] {
                                for _ in 0..cnt {
                                    h.push(HEv::Press(0, key));
                                    h.push(HEv::Tick(gap));
                                    h.push(HEv::Release(0, key));
                                    h.push(HEv::Tick(gap));
                                }
                            }
                            h.push(HEv::Tick(tail(t)));
                            lines.push(mk_line("LAY", false, &cfg, &h));
                        }
                    }
                    let n_r = if thorough { 300 } else { 30 };
                    for _ in 0..n_r {
                        let n_ev = r.range(4, 14) as usize;
                        let h = consistent_history(&mut r, &[ka, kb, kc], n_ev, &[0, 1, 1, 2, t - 1, t, t + 1, t + 3], tail(t));
                        lines.push(mk_line("LAY", false, &cfg, &h));
                    }
                }
            }
        }
    }
    // (4) random longer schedules over all of the above
    let n_rand = if thorough { 40000 } else { 4000 };
    for i in 0..n_rand {
        let t = *r.pick(&[3u32, 10, 200]);
        let len = r.range(1, 4) as usize;
        let special = match r.below(5) {
            0 => Special::Layer(r.below(len as u64) as usize),
            1 => Special::TapHoldLast(*r.pick(&[2u32, 5, 12])),
            _ => Special::None,
        };
        let td = Td { len, eager: r.chance(1, 2), t, special, red: match r.below(3) { 0 => None, 1 => Some(0), _ => Some(2) } };
        let cfg = cfg_text(&td);
        let gaps = [0, 0, 1, 1, 2, t - 1, t, t + 1];
        let n_ev = if i % 20 == 0 { r.range(34, 50) } else { r.range(5, 16) } as usize;
        let h = consistent_history(&mut r, &[ka, kb], n_ev, &gaps, tail(t));
        lines.push(mk_line("LAY", false, &cfg, &h));
    }
    // (6) more than 32 events between two ticks while a dance is pending
    flood_family(&mut lines);
    // (7) lists mixing plain keys with actions the parser rebuilds; judged against the written intent
    intent_family(&mut lines, thorough);
    lines
}
