//! Serialiser from the REAL parsed configuration (keyberon action trees) to the token protocol the
//! Lean driver reads (lean/KVerif/Drv/Cfg.lean). Custom actions are numbered in walk order.
use kanata_keyberon::action::*;
use kanata_keyberon::key_code::KeyCode;
use kanata_keyberon::layout::{Event, Queued, QueuedIter, WaitingAction};
use kanata_parser::custom_action::CustomAction;

pub struct Ser {
    /// distinct custom action lists in order of first encounter (pointer identity)
    pub customs: Vec<(usize, usize)>,
    /// key universe used to probe custom tap-hold closures
    pub probe_keys: Vec<u16>,
}

fn kc(k: &KeyCode) -> u16 {
    *k as u16
}

impl Ser {
    pub fn new(probe_keys: Vec<u16>) -> Self {
        Ser { customs: vec![], probe_keys }
    }

    pub fn custom_id(&mut self, c: &&&[&CustomAction]) -> usize {
        let key = ((**c).as_ptr() as usize, c.len());
        for (i, x) in self.customs.iter().enumerate() {
            if *x == key {
                return i;
            }
        }
        self.customs.push(key);
        self.customs.len() - 1
    }

    fn probe(&self, f: &(dyn Fn(QueuedIter) -> (Option<WaitingAction>, bool) + Send + Sync)) -> String {
        type Q = arraydeque::ArrayDeque<Queued, 32, arraydeque::behavior::Wrapping>;
        let empty: Q = Default::default();
        let (r0, skip0) = f(QueuedIter::verif_new(empty.iter()));
        let mut keys = vec![];
        for k in &self.probe_keys {
            let mut q: Q = Default::default();
            q.push_back(Queued::from(Event::Press(0, *k)));
            let (r, _) = f(QueuedIter::verif_new(q.iter()));
            if r == Some(WaitingAction::Tap) {
                keys.push(*k);
            }
        }
        let kind = match (r0, skip0) {
            (None, false) => "cr",
            (None, true) => "ce",
            _ => "c?",
        };
        let mut s = format!("{kind} {}", keys.len());
        for k in keys {
            s.push_str(&format!(" {k}"));
        }
        s
    }

    pub fn seq_events<'a>(&mut self, evs: &[SequenceEvent<'a, &'a &'a [&'a CustomAction]>], out: &mut Vec<String>) {
        out.push(evs.len().to_string());
        for e in evs {
            match e {
                SequenceEvent::NoOp => out.push("sn".into()),
                SequenceEvent::Press(k) => out.push(format!("sp {}", kc(k))),
                SequenceEvent::Release(k) => out.push(format!("sr {}", kc(k))),
                SequenceEvent::Tap(k) => out.push(format!("st {}", kc(k))),
                SequenceEvent::Delay { duration } => out.push(format!("sd {duration}")),
                SequenceEvent::Custom(c) => {
                    let id = self.custom_id(c);
                    out.push(format!("sc {id}"))
                }
                SequenceEvent::Complete => out.push("sx".into()),
                _ => out.push("s?".into()),
            }
        }
    }

    pub fn action<'a>(&mut self, a: &Action<'a, &'a &'a [&'a CustomAction]>, out: &mut Vec<String>) {
        match a {
            Action::NoOp => out.push("n".into()),
            Action::Trans => out.push("t".into()),
            Action::KeyCode(k) => out.push(format!("k {}", kc(k))),
            Action::MultipleKeyCodes(ks) => {
                out.push(format!("mk {}", ks.len()));
                for k in ks.iter() {
                    out.push(kc(k).to_string());
                }
            }
            Action::MultipleActions(acs) => {
                out.push(format!("ma {}", acs.len()));
                for x in acs.iter() {
                    self.action(x, out);
                }
            }
            Action::Layer(l) => out.push(format!("l {l}")),
            Action::DefaultLayer(l) => out.push(format!("dl {l}")),
            Action::Sequence { events } => {
                out.push("sq".into());
                self.seq_events(events, out);
            }
            Action::RepeatableSequence { events } => {
                out.push("rsq".into());
                self.seq_events(events, out);
            }
            Action::CancelSequences => out.push("cs".into()),
            Action::ReleaseState(ReleasableState::KeyCode(k)) => out.push(format!("rk {}", kc(k))),
            Action::ReleaseState(ReleasableState::Layer(l)) => out.push(format!("rl {l}")),
            Action::HoldTap(h) => {
                out.push(format!("ht {} {}", h.timeout, h.tap_hold_interval));
                out.push(match h.config {
                    HoldTapConfig::Default => "d".to_string(),
                    HoldTapConfig::HoldOnOtherKeyPress => "h".to_string(),
                    HoldTapConfig::PermissiveHold => "p".to_string(),
                    HoldTapConfig::Custom(f) => self.probe(f),
                    _ => "c?".to_string(),
                });
                self.action(&h.hold, out);
                self.action(&h.tap, out);
                self.action(&h.timeout_action, out);
            }
            Action::Custom(c) => {
                let id = self.custom_id(c);
                out.push(format!("cu {id}"));
            }
            Action::OneShot(o) => {
                let e = match o.end_config {
                    OneShotEndConfig::EndOnFirstPress => 0,
                    OneShotEndConfig::EndOnFirstPressOrRepress => 1,
                    OneShotEndConfig::EndOnFirstRelease => 2,
                    OneShotEndConfig::EndOnFirstReleaseOrRepress => 3,
                    _ => 9,
                };
                out.push(format!("os {} {}", o.timeout, e));
                self.action(o.action, out);
            }
            Action::OneShotIgnoreEventsTicks(t) => out.push(format!("osi {t}")),
            Action::TapDance(td) => {
                out.push(format!(
                    "td {} {} {}",
                    td.timeout,
                    if td.config == TapDanceConfig::Eager { 1 } else { 0 },
                    td.actions.len()
                ));
                for x in td.actions.iter() {
                    self.action(x, out);
                }
            }
            Action::Chords(g) => {
                out.push(format!("ch {} {}", g.timeout, g.coords.len()));
                for ((r, y), m) in g.coords.iter() {
                    out.push(format!("{r} {y} {m}"));
                }
                out.push(g.chords.len().to_string());
                for (m, x) in g.chords.iter() {
                    out.push(m.to_string());
                    self.action(x, out);
                }
            }
            Action::Repeat => out.push("rp".into()),
            Action::Fork(f) => {
                out.push(format!("fk {}", f.right_triggers.len()));
                for k in f.right_triggers.iter() {
                    out.push(kc(k).to_string());
                }
                self.action(&f.left, out);
                self.action(&f.right, out);
            }
            Action::Switch(sw) => {
                out.push(format!("sw {}", sw.cases.len()));
                for (ops, ac, bf) in sw.cases.iter() {
                    out.push(if matches!(bf, BreakOrFallthrough::Break) { "1".into() } else { "0".into() });
                    out.push(ops.len().to_string());
                    for o in ops.iter() {
                        out.push(format!("{o:?}").trim_start_matches("OpCode(").trim_end_matches(')').to_string());
                    }
                    self.action(ac, out);
                }
            }
            Action::Src => out.push("src".into()),
        }
    }
}
