//! C03: configuration parsing is total.
//!
//! Case line (self-contained, one line):
//!   `C03 <mode> <tag> <hex-of-text> [<hex-name>:<hex-content>]*`
//! mode `s` loads with `cfg::new_from_str`, mode `f` writes the text and the include files to a
//! temporary directory (which also becomes the working directory) and loads with
//! `cfg::new_from_file`. `-` stands for the empty byte string; `<tag>` names the generator (statistics
//! only). The text must be valid UTF-8 (the property quantifies over UTF-8 texts; the generator
//! guarantees it and `eval` rejects anything else as `harness-error`).
//!
//! `eval` prints
//!   `fe <..> | pre <0|1|-> | tp <..> | vr <..> | load <..> [| msg <..>]`
//! where
//!   fe   = `sexpr::parse` on the text: `ok <n> lines=<checksum> <tree with atom bytes and spans>`
//!          (an FNV-1a digest when long) or `err <start pos> <end pos> <class>`
//!   pre  = 1 if an include/platform/environment item is present (the loader then does more before
//!          template expansion than the model predicts)
//!   tp   = `expand_templates` on that tree: `ok <tree>`, `err <start> <end>`, `skip`
//!   vr   = hook `verif_parse_vars` on the expanded tree, then `$name` resolved with `SExpr::atom` and
//!          `SExpr::list` for every variable
//!   load = the oracle on the real loader: `ok` | `diag none` | `diag in <main|inc> <start> <end>`
//!          (location inside the content of the file the report names, on character boundaries, and
//!          the source attached to the report is that file) | `diag OUT ...` | `diag in-midchar ...`
//!          | `crash panic <message> @ <site>`; an abort or a hang is seen by the runner
//!   msg  = first line of the diagnostic (statistics only; removed by the runner before comparing)
//! The Lean driver prints the same line from the model, with `load total` where the model does not
//! predict the exact diagnostic (runner/props.py: `_c03_norm`).
use crate::rng::Rng;
use kanata_parser::cfg;
use std::fmt::Write as _;

type FxMap<K, V> = rustc_hash::FxHashMap<K, V>;

// ------------------------------------------------------------------------------------ hex
pub fn hex(b: &[u8]) -> String {
    if b.is_empty() {
        return "-".into();
    }
    let mut s = String::with_capacity(b.len() * 2);
    for x in b {
        write!(s, "{x:02x}").unwrap();
    }
    s
}

pub fn unhex(s: &str) -> Option<Vec<u8>> {
    if s == "-" {
        return Some(vec![]);
    }
    if s.len() % 2 != 0 {
        return None;
    }
    let b = s.as_bytes();
    let v = |c: u8| match c {
        b'0'..=b'9' => Some(c - b'0'),
        b'a'..=b'f' => Some(c - b'a' + 10),
        _ => None,
    };
    let mut out = Vec::with_capacity(b.len() / 2);
    for i in (0..b.len()).step_by(2) {
        out.push(v(b[i])? * 16 + v(b[i + 1])?);
    }
    Some(out)
}

pub struct Case {
    pub mode: char,
    #[allow(dead_code)]
    pub tag: String,
    pub text: String,
    pub includes: Vec<(String, String)>,
}

pub fn parse_case(line: &str) -> Result<Case, String> {
    let mut it = line.split_ascii_whitespace();
    if it.next() != Some("C03") {
        return Err("not a C03 line".into());
    }
    let mode = it.next().ok_or("mode")?.chars().next().ok_or("mode")?;
    let tag = it.next().ok_or("tag")?.to_string();
    let text = String::from_utf8(unhex(it.next().ok_or("text")?).ok_or("bad hex")?).map_err(|_| "text is not UTF-8")?;
    let mut includes = vec![];
    for inc in it {
        let (n, c) = inc.split_once(':').ok_or("include")?;
        let n = String::from_utf8(unhex(n).ok_or("bad hex")?).map_err(|_| "include name is not UTF-8")?;
        let c = String::from_utf8(unhex(c).ok_or("bad hex")?).map_err(|_| "include is not UTF-8")?;
        includes.push((n, c));
    }
    Ok(Case { mode, tag, text, includes })
}

pub fn case_line(mode: char, tag: &str, text: &str, includes: &[(String, String)]) -> String {
    let mut s = format!("C03 {mode} {tag} {}", hex(text.as_bytes()));
    for (n, c) in includes {
        write!(s, " {}:{}", hex(n.as_bytes()), hex(c.as_bytes())).unwrap();
    }
    s
}

// ------------------------------------------------------------------------------------ oracle
fn strip_bom(s: &str) -> &str {
    s.strip_prefix('\u{feff}').unwrap_or(s)
}

/// Checks an error report the way the property states it: the location, when given, lies inside
/// the file it names, and rendering it for the user does not crash.
fn check_report(report: miette::Report, files: &[(String, &str, &str)]) -> String {
    // `files`: (name as the parser will call it, kind tag, content)
    let mut out = String::from("diag");
    let labels: Vec<miette::LabeledSpan> = report.labels().map(|l| l.collect()).unwrap_or_default();
    if labels.is_empty() {
        out.push_str(" none");
    }
    for l in &labels {
        let (off, len) = (l.offset(), l.len());
        let Some(src) = report.source_code() else {
            out.push_str(" OUT no-source");
            continue;
        };
        match src.read_span(l.inner(), 0, 0) {
            Err(_) => {
                write!(out, " OUT span {off}+{len} outside-the-attached-source").unwrap();
                continue;
            }
            Ok(contents) => {
                let name = contents.name().unwrap_or("").to_string();
                match files.iter().find(|f| f.0 == name) {
                    None => write!(out, " OUT names-unknown-file {}", name.replace(' ', "_")).unwrap(),
                    Some((_, kind, content)) => {
                        let content = strip_bom(content);
                        let whole = src.read_span(l.inner(), usize::MAX / 4, usize::MAX / 4).ok().map(|c| c.data().to_vec());
                        if whole.as_deref() != Some(content.as_bytes()) {
                            write!(out, " OUT {kind} attached-source-is-not-the-content-of-the-file-it-names").unwrap();
                        } else if off + len > content.len() {
                            write!(out, " OUT {kind} {off} {} len {}", off + len, content.len()).unwrap();
                        } else if !content.is_char_boundary(off) || !content.is_char_boundary(off + len) {
                            write!(out, " in-midchar {kind} {off} {}", off + len).unwrap();
                        } else {
                            write!(out, " in {kind} {off} {}", off + len).unwrap();
                        }
                    }
                }
            }
        }
    }
    LAST_MSG.with(|m| *m.borrow_mut() = first_msg_line(&report));
    // what the user sees (main.rs: `log::error!("{e:?}")`): must not panic
    let rendered = format!("{report:?}");
    if rendered.is_empty() {
        out.push_str(" OUT empty-rendering");
    }
    out
}

fn load_str(text: &str, includes: &[(String, String)]) -> String {
    let mut m: FxMap<String, String> = FxMap::default();
    for (n, c) in includes {
        m.insert(n.clone(), c.clone());
    }
    match cfg::new_from_str(text, m) {
        Ok(_) => "ok".into(),
        Err(report) => {
            let mut files: Vec<(String, &str, &str)> = vec![("configuration".to_string(), "main", text)];
            for (n, c) in includes {
                files.push((n.clone(), "inc", c.as_str()));
            }
            check_report(report, &files)
        }
    }
}

fn simple_rel_name(n: &str) -> bool {
    !n.is_empty()
        && n.len() < 64
        && !n.starts_with('/')
        && !n.contains("..")
        && n.bytes().all(|b| b.is_ascii_alphanumeric() || matches!(b, b'.' | b'-' | b'_'))
}

fn load_file(text: &str, includes: &[(String, String)]) -> String {
    let dir = std::env::temp_dir().join(format!("kvh-c03-{}", std::process::id()));
    let _ = std::fs::remove_dir_all(&dir);
    if std::fs::create_dir_all(&dir).is_err() {
        return "harness-error tmpdir".into();
    }
    let main = dir.join("main.kbd");
    std::fs::write(&main, text).unwrap();
    for (n, c) in includes {
        if simple_rel_name(n) && n != "main.kbd" {
            std::fs::write(dir.join(n), c).unwrap();
        }
    }
    // defchordsv2's `(include f)` reads `f` relative to the working directory
    let old_cwd = std::env::current_dir().ok();
    let _ = std::env::set_current_dir(&dir);
    let res = std::panic::catch_unwind(|| match cfg::new_from_file(&main) {
        Ok(_) => "ok".to_string(),
        Err(report) => {
            let mut files: Vec<(String, &str, &str)> = vec![(main.to_string_lossy().to_string(), "main", text)];
            for (n, c) in includes {
                files.push((n.clone(), "inc", c.as_str()));
            }
            check_report(report, &files)
        }
    });
    if let Some(c) = old_cwd {
        let _ = std::env::set_current_dir(c);
    }
    let _ = std::fs::remove_dir_all(&dir);
    match res {
        Ok(s) => s,
        Err(e) => std::panic::resume_unwind(e),
    }
}

static LAST_PANIC: std::sync::Mutex<String> = std::sync::Mutex::new(String::new());
static HOOK: std::sync::Once = std::sync::Once::new();

/// Runs `f`; a panic becomes `crash panic <message> @ <file>:<line>` (the site identifies the defect).
fn guarded(f: impl FnOnce() -> String + std::panic::UnwindSafe) -> String {
    HOOK.call_once(|| {
        std::panic::set_hook(Box::new(|info| {
            let loc = info.location().map(|l| format!("{}:{}", l.file(), l.line())).unwrap_or_default();
            // repo files relative to the repo; dependency files relative to their crate directory
            let loc = if let Some(i) = loc.find("/parser/src/").or_else(|| loc.find("/keyberon/src/")) {
                loc[i + 1..].to_string()
            } else if let Some(i) = loc.find("/src/") {
                let pre = &loc[..i];
                match pre.rfind('/') {
                    Some(j) if pre[j + 1..].contains('-') && pre[j + 1..].bytes().any(|b| b.is_ascii_digit()) && !pre[j + 1..].contains(".dev-") && !pre[j + 1..].contains("index.crates.io-") => loc[j + 1..].to_string(),
                    _ => match loc[i + 5..].find("/src/") {
                        Some(k) => {
                            let pre = &loc[..i + 5 + k];
                            loc[pre.rfind('/').map(|j| j + 1).unwrap_or(0)..].to_string()
                        }
                        None => loc[i + 1..].to_string(),
                    },
                }
            } else {
                loc
            };
            *LAST_PANIC.lock().unwrap() = loc;
        }));
    });
    match std::panic::catch_unwind(f) {
        Ok(s) => s,
        Err(e) => {
            let msg = if let Some(s) = e.downcast_ref::<String>() {
                s.clone()
            } else if let Some(s) = e.downcast_ref::<&str>() {
                s.to_string()
            } else {
                "?".to_string()
            };
            let msg: String = msg.replace('\n', " ").chars().take(100).collect();
            format!("crash panic {} @ {}", msg, LAST_PANIC.lock().unwrap())
        }
    }
}

// ------------------------------------------------------------------------------------ front end
use kanata_parser::cfg::sexpr::{self, SExpr, Span};

fn fnv(s: &str) -> u64 {
    let mut h: u64 = 0xcbf29ce484222325;
    for b in s.bytes() {
        h ^= b as u64;
        h = h.wrapping_mul(0x100000001b3);
    }
    h
}

fn line_sum(sp: &Span) -> u64 {
    (sp.start.line as u64)
        .wrapping_add(3u64.wrapping_mul(sp.start.line_beginning as u64))
        .wrapping_add(5u64.wrapping_mul(sp.end.line as u64))
        .wrapping_add(7u64.wrapping_mul(sp.end.line_beginning as u64))
}

fn canon(e: &SExpr, out: &mut String, lines: &mut u64) {
    match e {
        SExpr::Atom(a) => {
            write!(out, "A{}@{}-{}", hex(a.t.as_bytes()), a.span.start(), a.span.end()).unwrap();
            *lines = lines.wrapping_add(line_sum(&a.span));
        }
        SExpr::List(l) => {
            write!(out, "L{}-{}(", l.span.start(), l.span.end()).unwrap();
            canon_list(&l.t, out, lines);
            out.push(')');
            *lines = lines.wrapping_add(line_sum(&l.span));
        }
    }
}

fn canon_list(xs: &[SExpr], out: &mut String, lines: &mut u64) {
    for (i, x) in xs.iter().enumerate() {
        if i > 0 {
            out.push(' ');
        }
        canon(x, out, lines);
    }
}

fn canon_tops(tops: &[sexpr::TopLevel]) -> String {
    let mut s = String::new();
    let mut lines = 0u64;
    for (i, t) in tops.iter().enumerate() {
        if i > 0 {
            s.push(' ');
        }
        canon(&SExpr::List(t.clone()), &mut s, &mut lines);
    }
    if s.chars().count() > 3000 {
        s = format!("#{:016x}", fnv(&s));
    }
    format!("{} lines={} {}", tops.len(), lines, s)
}

fn msg_class(m: &str) -> &'static str {
    if m.contains("Unterminated multiline string") {
        "untermMlString"
    } else if m.contains("Unterminated multiline comment") {
        "untermMlComment"
    } else if m.contains("Unterminated string") {
        "untermString"
    } else if m.contains("Unexpected closing parenthesis") {
        "unexpectedClose"
    } else if m.contains("Unclosed opening parenthesis") {
        "unclosedOpen"
    } else if m.contains("Everything must be in a list") {
        "notInList"
    } else {
        "other"
    }
}

fn pos_str(p: &sexpr::Position) -> String {
    format!("{} {} {}", p.absolute, p.line, p.line_beginning)
}

fn shorten(s: String) -> String {
    if s.chars().count() > 3000 {
        format!("#{:016x}", fnv(&s))
    } else {
        s
    }
}

fn head_is(t: &sexpr::TopLevel, names: &[&str]) -> bool {
    matches!(t.t.first(), Some(SExpr::Atom(a)) if names.contains(&a.t.as_str()))
}

fn diag_str(e: &cfg::ParseError, text: &str) -> String {
    match &e.span {
        Some(sp) => {
            let same = &*sp.file_content == strip_bom(text) && &*sp.file_name == "configuration";
            format!("err {} {}{}", sp.start(), sp.end(), if same { "" } else { " WRONG-FILE" })
        }
        None => "err nospan".to_string(),
    }
}

/// `parse_vars` on the defvar items, then what `$name` resolves to as an atom and as a list
fn vars_str(tops: &[sexpr::TopLevel], text: &str) -> String {
    // hook `verif_parse_vars` (parser/src/cfg/mod.rs, cfg(jtroo_kanata_verif)): `parse_vars` over the
    // defvar items, selected as `parse_cfg_raw_string` selects them
    match cfg::verif_parse_vars(tops) {
        Err(e) => diag_str(&e, text),
        Ok(vars) => {
            let mut names: Vec<&String> = vars.keys().collect();
            names.sort();
            let mut parts = vec![];
            for n in names {
                let r = SExpr::Atom(sexpr::Spanned::new(format!("${n}"), Span::default()));
                let mut c = String::new();
                let mut lines = 0u64;
                canon(&vars[n], &mut c, &mut lines);
                let a = match r.atom(Some(&vars)) {
                    Some(t) => hex(t.as_bytes()),
                    None => "~".to_string(),
                };
                let l = match r.list(Some(&vars)) {
                    Some(xs) => {
                        let mut o = String::new();
                        canon_list(xs, &mut o, &mut lines);
                        format!("({o})")
                    }
                    None => "~".to_string(),
                };
                parts.push(format!("{}={};{};{}", hex(n.as_bytes()), c, a, l));
            }
            format!("ok {} {}", vars.len(), shorten(parts.join(" ")))
        }
    }
}

/// the modelled front end on the text alone: `sexpr::parse`, `expand_templates`, `parse_vars`
fn front_end(text: &str) -> String {
    match sexpr::parse(text, "configuration") {
        Err(e) => match &e.span {
            Some(sp) => {
                let same = &*sp.file_content == strip_bom(text) && &*sp.file_name == "configuration";
                format!(
                    "fe err {} {} {}{} | pre - | tp skip | vr skip",
                    pos_str(&sp.start),
                    pos_str(&sp.end),
                    msg_class(&e.msg),
                    if same { "" } else { " WRONG-FILE" }
                )
            }
            None => "fe err nospan | pre - | tp skip | vr skip".to_string(),
        },
        Ok(tops) => {
            let fe = format!("fe ok {}", canon_tops(&tops));
            let pre = tops.iter().any(|t| head_is(t, &["include", "platform", "environment"]));
            let pre = if pre { 1 } else { 0 };
            let tp = guarded(|| match cfg::expand_templates(tops.clone(), &mut Default::default()) {
                Err(e) => format!("tp {} | vr skip", diag_str(&e, text)),
                Ok(tops2) => {
                    let vr = guarded(|| vars_str(&tops2, text));
                    format!("tp ok {} | vr {}", canon_tops(&tops2), vr)
                }
            });
            let tp = if tp.starts_with("crash") { format!("tp {tp} | vr skip") } else { tp };
            format!("{fe} | pre {pre} | {tp}")
        }
    }
}

/// first line of the diagnostic text (statistics only: which diagnostics the run reached)
fn first_msg_line(report: &miette::Report) -> String {
    let h = report.help().map(|h| h.to_string()).unwrap_or_default();
    let l: String = h.lines().next().unwrap_or("").chars().filter(|c| !c.is_ascii_digit()).take(48).collect();
    l.replace(" | ", " / ").replace(' ', "_")
}

thread_local! {
    static LAST_MSG: std::cell::RefCell<String> = const { std::cell::RefCell::new(String::new()) };
}

pub fn eval(line: &str) -> String {
    let case = match parse_case(line) {
        Ok(c) => c,
        Err(e) => return format!("harness-error {e}"),
    };
    LAST_MSG.with(|m| m.borrow_mut().clear());
    let fe = guarded(|| front_end(&case.text));
    let fe = if fe.starts_with("crash") { format!("fe {fe} | pre - | tp skip | vr skip") } else { fe };
    let load = match case.mode {
        's' => guarded(|| load_str(&case.text, &case.includes)),
        'f' => guarded(|| load_file(&case.text, &case.includes)),
        _ => return "harness-error mode".into(),
    };
    let msg = LAST_MSG.with(|m| m.borrow().clone());
    if msg.is_empty() {
        format!("{fe} | load {load}")
    } else {
        format!("{fe} | load {load} | msg {msg}")
    }
}

// ------------------------------------------------------------------------------------ tiny s-expr reader
/// The generator's own reader (deliberately independent of kanata's): atoms keep their exact
/// source text (quoted strings and raw strings included), comments are dropped.
#[derive(Clone, Debug, PartialEq)]
pub enum Node {
    Atom(String),
    List(Vec<Node>),
}

pub fn read_forest(text: &str) -> Option<Vec<Node>> {
    let b = text.as_bytes();
    let mut stack: Vec<Vec<Node>> = vec![vec![]];
    let mut i = 0;
    let is_ws = |c: u8| c.is_ascii_whitespace();
    while i < b.len() {
        let c = b[i];
        if is_ws(c) {
            i += 1;
        } else if c == b'(' {
            stack.push(vec![]);
            i += 1;
        } else if c == b')' {
            let l = stack.pop()?;
            stack.last_mut()?.push(Node::List(l));
            i += 1;
        } else if c == b';' && b.get(i + 1) == Some(&b';') {
            while i < b.len() && b[i] != b'\n' {
                i += 1;
            }
        } else if c == b'#' && b.get(i + 1) == Some(&b'|') {
            let mut j = i + 2;
            loop {
                if j + 1 >= b.len() {
                    return None;
                }
                if b[j] == b'|' && b[j + 1] == b'#' {
                    break;
                }
                j += 1;
            }
            i = j + 2;
        } else if c == b'"' {
            let mut j = i + 1;
            while j < b.len() && b[j] != b'"' && b[j] != b'\n' {
                j += 1;
            }
            if j >= b.len() || b[j] != b'"' {
                return None;
            }
            stack.last_mut()?.push(Node::Atom(text[i..=j].to_string()));
            i = j + 1;
        } else if c == b'r' && b.get(i + 1) == Some(&b'#') && b.get(i + 2) == Some(&b'"') {
            let mut j = i + 3;
            loop {
                if j + 1 >= b.len() {
                    return None;
                }
                if b[j] == b'"' && b[j + 1] == b'#' {
                    break;
                }
                j += 1;
            }
            stack.last_mut()?.push(Node::Atom(text[i..j + 2].to_string()));
            i = j + 2;
        } else {
            let mut j = i + 1;
            while j < b.len() && !(is_ws(b[j]) || matches!(b[j], b'(' | b')' | b'"')) {
                j += 1;
            }
            stack.last_mut()?.push(Node::Atom(text[i..j].to_string()));
            i = j;
        }
    }
    if stack.len() != 1 {
        return None;
    }
    stack.pop()
}

fn print_node(n: &Node, out: &mut String) {
    match n {
        Node::Atom(a) => out.push_str(a),
        Node::List(l) => {
            out.push('(');
            for (i, c) in l.iter().enumerate() {
                if i > 0 {
                    out.push(' ');
                }
                print_node(c, out);
            }
            out.push(')');
        }
    }
}

pub fn print_forest(f: &[Node]) -> String {
    let mut s = String::new();
    for n in f {
        print_node(n, &mut s);
        s.push('\n');
    }
    s
}

fn depth(n: &Node) -> usize {
    match n {
        Node::Atom(_) => 0,
        Node::List(l) => 1 + l.iter().map(depth).max().unwrap_or(0),
    }
}

/// all paths to nodes below the (virtual) root list; a path is never empty
fn paths(f: &[Node]) -> Vec<Vec<usize>> {
    fn go(l: &[Node], pre: &mut Vec<usize>, out: &mut Vec<Vec<usize>>) {
        for (i, c) in l.iter().enumerate() {
            pre.push(i);
            out.push(pre.clone());
            if let Node::List(cs) = c {
                go(cs, pre, out);
            }
            pre.pop();
        }
    }
    let mut out = vec![];
    go(f, &mut vec![], &mut out);
    out
}

fn parent_mut<'a>(f: &'a mut Vec<Node>, path: &[usize]) -> &'a mut Vec<Node> {
    let mut cur = f;
    for &i in &path[..path.len() - 1] {
        cur = match &mut cur[i] {
            Node::List(l) => l,
            Node::Atom(_) => unreachable!(),
        };
    }
    cur
}

fn node_at<'a>(f: &'a [Node], path: &[usize]) -> &'a Node {
    let mut cur = f;
    for &i in &path[..path.len() - 1] {
        cur = match &cur[i] {
            Node::List(l) => l,
            Node::Atom(_) => unreachable!(),
        };
    }
    &cur[path[path.len() - 1]]
}

// ------------------------------------------------------------------------------------ seeds
pub fn repo() -> String {
    std::env::var("KV_REPO").unwrap_or_else(|_| "/repo".to_string())
}

pub struct Seed {
    pub name: String,
    pub text: String,
}

/// every `[source]`-style listing block (`----` … `----`) of an asciidoc file
fn adoc_blocks(src: &str) -> Vec<String> {
    let mut out = vec![];
    let mut cur: Option<String> = None;
    for line in src.lines() {
        if line.trim_end() == "----" {
            match cur.take() {
                Some(b) => out.push(b),
                None => cur = Some(String::new()),
            }
        } else if let Some(b) = cur.as_mut() {
            b.push_str(line);
            b.push('\n');
        }
    }
    out
}

/// string literals of a Rust source file (plain, with the usual escapes, and raw)
fn rust_string_literals(src: &str) -> Vec<String> {
    let b = src.as_bytes();
    let mut out = vec![];
    let mut i = 0;
    while i < b.len() {
        let c = b[i];
        if c == b'/' && b.get(i + 1) == Some(&b'/') {
            while i < b.len() && b[i] != b'\n' {
                i += 1;
            }
        } else if c == b'/' && b.get(i + 1) == Some(&b'*') {
            i += 2;
            while i + 1 < b.len() && !(b[i] == b'*' && b[i + 1] == b'/') {
                i += 1;
            }
            i += 2;
        } else if c == b'\'' {
            // char literal or lifetime
            if b.get(i + 1) == Some(&b'\\') {
                i += 2;
                while i < b.len() && b[i] != b'\'' {
                    i += 1;
                }
                i += 1;
            } else if let Some(ch) = src[i + 1..].chars().next() {
                if src[i + 1 + ch.len_utf8()..].starts_with('\'') {
                    i += 2 + ch.len_utf8();
                } else {
                    i += 1;
                }
            } else {
                i += 1;
            }
        } else if c == b'r' && (b.get(i + 1) == Some(&b'"') || b.get(i + 1) == Some(&b'#'))
            && (i == 0 || !(b[i - 1].is_ascii_alphanumeric() || b[i - 1] == b'_'))
        {
            let mut j = i + 1;
            let mut hashes = 0;
            while b.get(j) == Some(&b'#') {
                hashes += 1;
                j += 1;
            }
            if b.get(j) != Some(&b'"') {
                i += 1;
                continue;
            }
            let start = j + 1;
            let mut end_pat = String::from("\"");
            end_pat.push_str(&"#".repeat(hashes));
            match src[start..].find(&end_pat) {
                Some(k) => {
                    out.push(src[start..start + k].to_string());
                    i = start + k + end_pat.len();
                }
                None => break,
            }
        } else if c == b'"' {
            let mut s = String::new();
            let mut j = i + 1;
            let mut ok = false;
            while j < b.len() {
                let ch = src[j..].chars().next().unwrap();
                if ch == '"' {
                    ok = true;
                    j += 1;
                    break;
                }
                if ch == '\\' {
                    let nx = src[j + 1..].chars().next().unwrap_or('\\');
                    j += 1 + nx.len_utf8();
                    match nx {
                        'n' => s.push('\n'),
                        't' => s.push('\t'),
                        'r' => s.push('\r'),
                        '0' => s.push('\0'),
                        '\n' => {
                            while j < b.len() && b[j].is_ascii_whitespace() {
                                j += 1;
                            }
                        }
                        'u' => {
                            if let Some(k) = src[j..].find('}') {
                                let hexs = src[j..j + k].trim_start_matches('{');
                                if let Some(ch) = u32::from_str_radix(hexs, 16).ok().and_then(char::from_u32) {
                                    s.push(ch);
                                }
                                j += k + 1;
                            }
                        }
                        'x' => {
                            if let Some(v) = src.get(j..j + 2).and_then(|h| u8::from_str_radix(h, 16).ok()) {
                                s.push(v as char);
                            }
                            j += 2;
                        }
                        other => s.push(other),
                    }
                } else {
                    s.push(ch);
                    j += ch.len_utf8();
                }
            }
            if ok {
                out.push(s);
            }
            i = j;
        } else {
            i += 1;
        }
    }
    out
}

fn walk(dir: &std::path::Path, out: &mut Vec<std::path::PathBuf>) {
    let mut ents: Vec<_> = match std::fs::read_dir(dir) {
        Ok(r) => r.filter_map(|e| e.ok()).map(|e| e.path()).collect(),
        Err(_) => return,
    };
    ents.sort();
    for p in ents {
        if p.is_dir() {
            walk(&p, out);
        } else {
            out.push(p);
        }
    }
}

/// (seeds, include files available by name). Deterministic (sorted directory walks).
pub fn load_seeds() -> (Vec<Seed>, Vec<(String, String)>) {
    let repo = repo();
    let mut seeds = vec![];
    let mut includes = vec![];
    let mut files = vec![];
    walk(&std::path::Path::new(&repo).join("cfg_samples"), &mut files);
    for p in &files {
        let Ok(text) = std::fs::read_to_string(p) else { continue };
        let name = p.file_name().unwrap().to_string_lossy().to_string();
        if name.ends_with(".kbd") {
            seeds.push(Seed { name: format!("sample:{name}"), text: text.clone() });
        }
        if (name.ends_with(".kbd") || name.ends_with(".tsv") || name.ends_with(".txt")) && text.len() < 4096 {
            includes.push((name, text));
        }
    }
    // documentation blocks
    if let Ok(doc) = std::fs::read_to_string(std::path::Path::new(&repo).join("docs/config.adoc")) {
        for (i, b) in adoc_blocks(&doc).into_iter().enumerate() {
            if !b.contains('(') {
                continue;
            }
            if read_forest(&b).is_none() {
                continue;
            }
            seeds.push(Seed { name: format!("doc:{i}"), text: complete(&b) });
        }
    }
    // configuration strings in the tests
    let mut tfiles = vec![];
    walk(&std::path::Path::new(&repo).join("parser/src/cfg/tests"), &mut tfiles);
    tfiles.push(std::path::Path::new(&repo).join("parser/src/cfg/tests.rs"));
    walk(&std::path::Path::new(&repo).join("src/tests"), &mut tfiles);
    tfiles.push(std::path::Path::new(&repo).join("src/tests.rs"));
    walk(&std::path::Path::new(&repo).join("parser/test_cfgs"), &mut tfiles);
    for p in tfiles {
        let Ok(src) = std::fs::read_to_string(&p) else { continue };
        let stem = p.file_name().unwrap().to_string_lossy().to_string();
        if stem.ends_with(".rs") {
            for (i, lit) in rust_string_literals(&src).into_iter().enumerate() {
                if lit.contains("(def") && lit.len() < 20000 {
                    seeds.push(Seed { name: format!("test:{stem}:{i}"), text: lit });
                }
            }
        } else if stem.ends_with(".kbd") {
            seeds.push(Seed { name: format!("testcfg:{stem}"), text: src.clone() });
            if src.len() < 4096 {
                includes.push((stem, src));
            }
        }
    }
    (seeds, includes)
}

/// a documentation fragment becomes a configuration: add the mandatory items it lacks
fn complete(frag: &str) -> String {
    let Some(f) = read_forest(frag) else { return frag.to_string() };
    let has = |h: &str| f.iter().any(|n| matches!(n, Node::List(l) if matches!(l.first(), Some(Node::Atom(a)) if a == h)));
    let mut s = frag.to_string();
    if !has("defsrc") {
        s.push_str(WRAP_SRC);
        if !has("deflayer") && !has("deflayermap") {
            s.push_str(WRAP_LAYER);
        }
    } else if !has("deflayer") && !has("deflayermap") {
        // cannot know the defsrc length: a deflayermap fits any
        s.push_str("(deflayermap (base) a a)\n");
    }
    s
}

/// `pub const NAME: &str = "...";` of list_actions.rs, checked against the parser's own predicate
pub fn list_action_names() -> Vec<String> {
    let src = std::fs::read_to_string(std::path::Path::new(&repo()).join("parser/src/cfg/list_actions.rs")).unwrap_or_default();
    let mut out = vec![];
    for line in src.lines() {
        let l = line.trim();
        let l = if l.starts_with("pub const ") { l } else { continue };
        if let (Some(a), Some(z)) = (l.find('"'), l.rfind('"')) {
            if z > a {
                let name = &l[a + 1..z];
                if cfg::list_actions::is_list_action(name) && !out.iter().any(|x| x == name) {
                    out.push(name.to_string());
                }
            }
        }
    }
    // a two-line constant (`pub const X: &str =\n    "...";`)
    let lines: Vec<&str> = src.lines().collect();
    for w in lines.windows(2) {
        if w[0].trim_start().starts_with("pub const ") && w[0].trim_end().ends_with('=') {
            let l = w[1].trim();
            if let (Some(a), Some(z)) = (l.find('"'), l.rfind('"')) {
                if z > a {
                    let name = &l[a + 1..z];
                    if cfg::list_actions::is_list_action(name) && !out.iter().any(|x| x == name) {
                        out.push(name.to_string());
                    }
                }
            }
        }
    }
    out
}

/// keyword-looking string literals of the parser sources: option names, sub-keywords, item names
pub fn keyword_dictionary() -> Vec<String> {
    let mut files = vec![];
    walk(&std::path::Path::new(&repo()).join("parser/src/cfg"), &mut files);
    let mut out: Vec<String> = vec![];
    for p in files {
        let n = p.to_string_lossy().to_string();
        if !n.ends_with(".rs") || n.contains("/tests") || n.ends_with("list_actions.rs") {
            continue;
        }
        let Ok(src) = std::fs::read_to_string(&p) else { continue };
        for lit in rust_string_literals(&src) {
            if lit.len() >= 2
                && lit.len() <= 48
                && lit.bytes().all(|b| b.is_ascii_lowercase() || b.is_ascii_digit() || b == b'-' || b == b'!')
                && lit.as_bytes()[0].is_ascii_lowercase()
                && !out.contains(&lit)
            {
                out.push(lit);
            }
        }
    }
    out.sort();
    out
}

// ------------------------------------------------------------------------------------ mutation
const BOUNDARY_NUMBERS: &[&str] = &[
    "0", "1", "2", "00", "-1", "255", "256", "599", "600", "767", "768", "65534", "65535", "65536", "4294967295",
    "4294967296", "18446744073709551615", "18446744073709551616", "99999999999999999999999999", "1.5", "0x10", "+1", "1e3", "١",
];
const ODD_ATOMS: &[&str] = &[
    "t!", "template-expand", "concat", "if-equal", "if-not-equal", "if-in-list", "if-not-in-list", "include", "platform",
    "environment", "\"\"", "\" \"", "r#\"\"#", "r#\"a\nb\"#", "$", "@", "$$", "@@", "_", "__", "XX", "•", "∅", "lrld", "rpt-any",
    "use-defsrc", "break", "fallthrough", "é", "漢字", "😀", "A-", "S-", "C-S-", "nop0", "🔣", "\"a b\"", "mlft", "mwu", "min",
    "deflayer", "defsrc", "defalias", "defvar", "deftemplate",
];

struct Ctx<'a> {
    names: &'a [String],
    dict: &'a [String],
    donors: &'a [Vec<Node>],
}

fn is_number(a: &str) -> bool {
    !a.is_empty() && a.bytes().all(|b| b.is_ascii_digit())
}

fn atom(s: &str) -> Node {
    Node::Atom(s.to_string())
}

fn random_subtree(r: &mut Rng, f: &[Node]) -> Node {
    let ps = paths(f);
    if ps.is_empty() {
        return Node::List(vec![]);
    }
    let p: Vec<usize> = r.pick(&ps).clone();
    node_at(f, &p).clone()
}

/// one structure-aware mutation; returns the operator's name
fn mutate_once(r: &mut Rng, f: &mut Vec<Node>, cx: &Ctx) -> &'static str {
    let ps = paths(f);
    if ps.is_empty() {
        f.push(Node::List(vec![]));
        return "grow";
    }
    let op = r.below(17);
    // operators that need a particular kind of node look for one
    let pick_where = |r: &mut Rng, pred: &dyn Fn(&Node) -> bool| -> Option<Vec<usize>> {
        let c: Vec<&Vec<usize>> = ps.iter().filter(|p| pred(node_at(f, p))).collect();
        if c.is_empty() {
            None
        } else {
            Some((*r.pick(&c)).clone())
        }
    };
    let any = r.pick(&ps).clone();
    let idx = *any.last().unwrap();
    match op {
        0 => {
            parent_mut(f, &any).remove(idx);
            "delete"
        }
        1 => {
            let n = node_at(f, &any).clone();
            parent_mut(f, &any).insert(idx, n);
            "duplicate"
        }
        2 => {
            let par = parent_mut(f, &any);
            let j = r.below(par.len() as u64) as usize;
            par.swap(idx, j);
            "swap"
        }
        3 => {
            let donor = if !cx.donors.is_empty() && r.chance(1, 2) {
                {
                    let d: &Vec<Node> = r.pick(cx.donors);
                    random_subtree(r, d)
                }
            } else {
                random_subtree(r, f)
            };
            parent_mut(f, &any)[idx] = donor;
            "splice"
        }
        4 => match pick_where(r, &|n| matches!(n, Node::Atom(_))) {
            Some(p) => {
                let i = *p.last().unwrap();
                parent_mut(f, &p)[i] = Node::List(vec![]);
                "atom-to-empty-list"
            }
            None => "noop",
        },
        5 | 6 => match pick_where(r, &|n| matches!(n, Node::Atom(a) if is_number(a))) {
            Some(p) => {
                let i = *p.last().unwrap();
                parent_mut(f, &p)[i] = atom(*r.pick(BOUNDARY_NUMBERS));
                "number-boundary"
            }
            None => "noop",
        },
        7 => match pick_where(r, &|n| matches!(n, Node::Atom(a) if !is_number(a))) {
            Some(p) => {
                let i = *p.last().unwrap();
                let (rep, extra): (&str, &str) = match r.below(17) {
                    // cycles closed through a variable that an earlier definition referred to before it
                    // existed (forward references), in several definition orders
                    12 => ("$fc", "(defvar fa $fc fb $fa fc $fa)"),
                    13 => ("$ga", "(defvar ga $gb gc $ga gb $gc)"),
                    14 => ("$hb", "(defvar ha (multi $hc x) hb $ha hc (macro $hb))"),
                    15 => ("$ic", "(defvar ia $ib ic $ia ib (concat $ic))"),
                    0 => ("$undefined-var", ""),
                    1 => ("@undefined-alias", ""),
                    2 => ("$selfv", "(defvar selfv $selfv)"),
                    3 => ("$cyc1", "(defvar cyc1 $cyc2 cyc2 $cyc1)"),
                    4 => ("$lst", "(defvar lst (a b))"),
                    5 => ("@selfa", "(defalias selfa @selfa)"),
                    6 => ("$lself", "(defvar lself (multi a $lself))"),
                    7 => ("$lc1", "(defvar lc1 (multi a $lc2) lc2 (multi b $lc1))"),
                    8 => ("$cc", "(defvar lx (x $lx) cc (concat $lx))"),
                    9 => ("$cat", "(defvar cat (concat $ ca t))"),
                    10 => ("$fwd", "(defvar fwd $later later (tap-hold 100 100 a $fwd))"),
                    11 => ("$deep", "(defvar d0 (a a) d1 ($d0 $d0) d2 ($d1 $d1) d3 ($d2 $d2) deep (concat $d3))"),
                    _ => ("unknown-name", ""),
                };
                parent_mut(f, &p)[i] = atom(rep);
                if !extra.is_empty() {
                    let at = r.below(f.len() as u64 + 1) as usize;
                    f.insert(at, read_forest(extra).unwrap().remove(0));
                }
                "name-unknown-or-cyclic"
            }
            None => "noop",
        },
        8 => {
            let n = node_at(f, &any).clone();
            parent_mut(f, &any)[idx] = Node::List(vec![n]);
            "wrap"
        }
        9 => match pick_where(r, &|n| matches!(n, Node::List(_))) {
            Some(p) if p.len() > 1 => {
                let i = *p.last().unwrap();
                let par = parent_mut(f, &p);
                if let Node::List(cs) = par.remove(i) {
                    for (k, c) in cs.into_iter().enumerate() {
                        par.insert(i + k, c);
                    }
                }
                "unwrap"
            }
            _ => "noop",
        },
        10 | 11 => match pick_where(r, &|n| matches!(n, Node::List(l) if !l.is_empty())) {
            Some(p) => {
                let i = *p.last().unwrap();
                if let Node::List(cs) = &mut parent_mut(f, &p)[i] {
                    let k = r.below(cs.len() as u64) as usize;
                    cs.truncate(k.max(if r.chance(1, 4) { 0 } else { 1 }));
                }
                "truncate-arguments"
            }
            None => "noop",
        },
        12 => match pick_where(r, &|n| matches!(n, Node::List(_))) {
            Some(p) => {
                let i = *p.last().unwrap();
                let extra = match r.below(4) {
                    0 => atom("a"),
                    1 => atom(*r.pick(BOUNDARY_NUMBERS)),
                    2 => Node::List(vec![]),
                    _ => random_subtree(r, f),
                };
                if let Node::List(cs) = &mut parent_mut(f, &p)[i] {
                    cs.push(extra);
                }
                "extra-argument"
            }
            None => "noop",
        },
        13 => match pick_where(r, &|n| matches!(n, Node::List(l) if matches!(l.first(), Some(Node::Atom(_))))) {
            Some(p) if p.len() > 1 => {
                let i = *p.last().unwrap();
                let name = r.pick(cx.names).clone();
                if let Node::List(cs) = &mut parent_mut(f, &p)[i] {
                    cs[0] = Node::Atom(name);
                }
                "rename-list-head"
            }
            _ => "noop",
        },
        14 => match pick_where(r, &|n| matches!(n, Node::Atom(_))) {
            Some(p) => {
                let i = *p.last().unwrap();
                let a = if r.chance(1, 2) { r.pick(ODD_ATOMS).to_string() } else { r.pick(cx.dict).clone() };
                parent_mut(f, &p)[i] = Node::Atom(a);
                "odd-atom"
            }
            None => "noop",
        },
        15 => {
            // template machinery around an existing node
            let n = node_at(f, &any).clone();
            let (def, usage): (&str, Node) = match r.below(5) {
                0 => ("(deftemplate tid (x) $x)", Node::List(vec![atom("t!"), atom("tid"), n])),
                1 => ("(deftemplate tid (x) $x)", Node::List(vec![atom("t!"), atom("tid"), Node::List(vec![atom("t!"), atom("tid"), n])])),
                2 => ("(deftemplate tif (x) (if-equal $x a b) (if-in-list $x (a b) c) (if-not-equal $x a $x) (if-not-in-list $x (a) $x))", Node::List(vec![atom("t!"), atom("tif"), n])),
                3 => ("(deftemplate tcc (x y) (concat $x $y))", Node::List(vec![atom("t!"), atom("tcc"), n.clone(), n])),
                _ => ("(deftemplate trec (x y) ($x trec $x $y))", Node::List(vec![atom("t!"), atom("trec"), n, atom("t!")])),
            };
            parent_mut(f, &any)[idx] = usage;
            f.insert(0, read_forest(def).unwrap().remove(0));
            "template-wrap"
        }
        _ => {
            // move a top-level item (declaration order matters for templates and aliases)
            if f.len() >= 2 {
                let i = r.below(f.len() as u64) as usize;
                let n = f.remove(i);
                let j = r.below(f.len() as u64 + 1) as usize;
                f.insert(j, n);
            }
            "reorder-top-level"
        }
    }
}

const BYTE_TOKENS: &[&str] = &[
    "(", ")", "\"", "r#\"", "\"#", "#|", "|#", ";;", "\n", " ", "\t", "\r", "é", "漢", "😀", "\u{feff}", "$", "@", "\\", "\0", "r", "#", "|", ";",
    "\u{85}", "\u{a0}", "\u{2028}", "a",
];

/// raw mutation on character boundaries (the text stays UTF-8, as the property requires)
fn mutate_bytes(r: &mut Rng, text: &str) -> (String, &'static str) {
    let bounds: Vec<usize> = text.char_indices().map(|(i, _)| i).chain(std::iter::once(text.len())).collect();
    let at = |r: &mut Rng| bounds[r.below(bounds.len() as u64) as usize];
    match r.below(6) {
        0 => {
            let p = at(r);
            (format!("{}{}{}", &text[..p], r.pick(BYTE_TOKENS), &text[p..]), "insert-token")
        }
        1 => {
            let (mut a, mut b) = (at(r), at(r));
            if a > b {
                std::mem::swap(&mut a, &mut b);
            }
            let b = b.min(a + 1 + r.below(40) as usize);
            let b = *bounds.iter().find(|&&x| x >= b).unwrap_or(&text.len());
            (format!("{}{}", &text[..a], &text[b..]), "delete-range")
        }
        2 => {
            let p = at(r);
            (text[..p].to_string(), "truncate")
        }
        3 => {
            let p = at(r);
            let q = *bounds.iter().find(|&&x| x > p).unwrap_or(&text.len());
            (format!("{}{}{}", &text[..p], r.pick(BYTE_TOKENS), &text[q..]), "replace-char")
        }
        4 => {
            let (mut a, mut b) = (at(r), at(r));
            if a > b {
                std::mem::swap(&mut a, &mut b);
            }
            let b = b.min(a + 200);
            let b = *bounds.iter().find(|&&x| x >= b).unwrap_or(&text.len());
            let p = at(r);
            (format!("{}{}{}", &text[..p], &text[a..b], &text[p..]), "copy-range")
        }
        _ => {
            let p = at(r);
            (format!("{}{}", r.pick(&["\u{feff}", "\u{feff}\u{feff}", "#|", "r#\"", "\"", "(", ";;"]), &text[p.min(text.len())..]), "prefix")
        }
    }
}

// ------------------------------------------------------------------------------------ grammar
const PRELUDE: &str = "(deflocalkeys-linux lk300 300 lk0 0)\n(deflocalkeys-win lk300 300 lk0 0)\n(defcfg concurrent-tap-hold yes)\n(defvar v1 a vl (a b))\n(defvirtualkeys vk1 a)\n(deffakekeys fk1 b)\n(defalias al1 a)\n(defchords cg 100 (a) a (b) b)\n";
const ARG_KINDS: &[&str] = &[
    "a", "b", "lsft", "100", "0", "65535", "65536", "1", "@al1", "vk1", "fk1", "l2", "base", "(a b)", "()", "(multi a b)", "\"s\"", "$v1", "$vl",
    "tap", "press", "release", "toggle", "real", "virtual", "break", "fallthrough", "lt", "gt", "cg", "_", "XX", "(a)", "((a) b break)", "(lsft)",
    "(tap-hold 100 100 a b)", "(layer-while-held l2)", "S-a", "(or a b)", "x", "1000000", "-5", "(1 2)", "(macro a 10 b)", "all-released",
    "first-release", "(unicode é)", "U+1F600", "😀", "S-(a b)", "C-S-()", "A-(a)", "C-()", "RA-(b 10 c)", "M-((a))", "S-()", "C-S-(a S-(b))",
    "O-(a b)", "(S-a S-b)", "nop0", "sldr", "(nop0 a)", "(a b c)", "((a b) (c))", "O-()", "766", "767", "768", "1023", "1024", "255", "256",
    "lk300", "lk0",
];
const CONTEXTS: &[(&str, &str)] = &[
    ("layer", "(defsrc a b)\n(deflayer base {} b)\n(deflayer l2 a b)\n"),
    ("alias", "(defsrc a b)\n(defalias x {})\n(deflayer base @x b)\n(deflayer l2 a b)\n"),
    ("vkey", "(defsrc a b)\n(defvirtualkeys vk2 {})\n(deflayer base a b)\n(deflayer l2 a b)\n"),
    ("chords", "(defsrc a b)\n(defchords cg2 100 (a) {} (b) b)\n(deflayer base (chord cg2 a) (chord cg2 b))\n(deflayer l2 a b)\n"),
    ("chordsv2", "(defsrc a b)\n(deflayer base a b)\n(deflayer l2 a b)\n(defchordsv2 (a b) {} 100 all-released ())\n"),
    ("tap-dance", "(defsrc a b)\n(deflayer base (tap-dance 200 ({} b)) b)\n(deflayer l2 a b)\n"),
    ("fork", "(defsrc a b)\n(deflayer base (fork {} b (lsft)) (fork a {} (lsft)))\n(deflayer l2 a b)\n"),
    ("switch", "(defsrc a b)\n(deflayer base (switch (a) {} break () {} fallthrough) b)\n(deflayer l2 a b)\n"),
    ("switch-cond", "(defsrc a b)\n(deflayer base (switch ({}) a break) b)\n(deflayer l2 a b)\n"),
    ("multi", "(defsrc a b)\n(deflayer base (multi {} a) b)\n(deflayer l2 a b)\n"),
    ("macro", "(defsrc a b)\n(deflayer base (macro {} a) b)\n(deflayer l2 a b)\n"),
    ("one-shot", "(defsrc a b)\n(deflayer base (one-shot 100 {}) b)\n(deflayer l2 a b)\n"),
    ("tap-hold", "(defsrc a b)\n(deflayer base (tap-hold 100 100 {} {}) b)\n(deflayer l2 a b)\n"),
    ("layermap", "(defsrc a b)\n(deflayermap (base) a {} ___ {})\n(deflayer l2 a b)\n"),
    ("override", "(defsrc a b)\n(deflayer base a b)\n(deflayer l2 a b)\n(defoverrides {} (b))\n"),
    ("seq", "(defsrc a b)\n(deflayer base a b)\n(deflayer l2 a b)\n(defseq vk1 {})\n"),
    ("seq-list", "(defsrc a b)\n(deflayer base a b)\n(deflayer l2 a b)\n(defseq vk1 ({} a))\n"),
    ("macro-mods", "(defsrc a b)\n(deflayer base (macro C-S-({}) a) (macro S-{} 10) )\n(deflayer l2 a b)\n"),
    ("fakekey-action", "(defsrc a b)\n(deffakekeys fk2 {})\n(deflayer base (on-press-fakekey fk2 tap) b)\n(deflayer l2 a b)\n"),
    ("alias-in-alias", "(defsrc a b)\n(defalias x {} y (multi @x {}))\n(deflayer base @y b)\n(deflayer l2 a b)\n"),
    ("template", "(defsrc a b)\n(deftemplate tt (p) $p)\n(deflayer base (t! tt {}) b)\n(deflayer l2 a b)\n"),
];
const TOP_ITEMS: &[&str] = &[
    "defcfg", "defsrc", "deflayer", "deflayermap", "defalias", "defaliasenvcond", "defvar", "deftemplate", "defoverrides", "deflocalkeys-linux",
    "deflocalkeys-win", "deffakekeys", "defvirtualkeys", "defchords", "defchordsv2", "defchordsv2-experimental", "defzippy", "defzippy-experimental",
    "defseq", "include", "platform", "environment", "template-expand", "t!",
];

fn gen_action(r: &mut Rng, name: &str, nargs: usize) -> String {
    let mut s = format!("({name}");
    for _ in 0..nargs {
        s.push(' ');
        s.push_str(*r.pick(ARG_KINDS));
    }
    s.push(')');
    s
}

fn grammar_case(r: &mut Rng, name: &str, nargs: usize, ctx: usize) -> (String, String) {
    // 1 in 12: a bare argument instead of a list action fills the slot
    let act = if r.chance(1, 12) { r.pick(ARG_KINDS).to_string() } else { gen_action(r, name, nargs) };
    let (cname, tmpl) = CONTEXTS[ctx];
    (format!("gram:{cname}:{nargs}"), format!("{PRELUDE}{}", tmpl.replace("{}", &act)))
}

/// top-level items and defcfg options with 0..n+1 arguments of plausible kinds
/// local key names bound to boundary key codes, used as source key and in actions
fn localkeys_case(r: &mut Rng) -> (String, String) {
    let n = *r.pick(BOUNDARY_NUMBERS);
    let n2 = *r.pick(&["0", "1", "255", "300", "766", "767", "768", "1023", "65535"]);
    let variant = *r.pick(&["deflocalkeys-linux", "deflocalkeys-linux", "deflocalkeys-win", "deflocalkeys-macos", "deflocalkeys-wintercept"]);
    let text = format!("({variant} k1 {n} k2 {n2})\n(defsrc k1 k2 a)\n(deflayer base k2 (multi k1 a) (tap-hold 100 100 k1 k2))\n(defoverrides (k1) (k2))\n");
    (format!("top:localkeys:{n}:{n2}"), text)
}

fn toplevel_case(r: &mut Rng, dict: &[String]) -> (String, String) {
    let item = *r.pick(TOP_ITEMS);
    let n = r.below(6) as usize;
    let mut s = format!("({item}");
    for _ in 0..n {
        s.push(' ');
        if r.chance(1, 3) {
            s.push_str(r.pick(dict).as_str());
        } else {
            s.push_str(*r.pick(ARG_KINDS));
        }
    }
    s.push(')');
    let base = if item == "defsrc" || r.chance(1, 8) { "" } else { "(defsrc a b)\n" };
    let lay = if item.starts_with("deflayer") || r.chance(1, 8) { "" } else { "(deflayer base a b)\n" };
    (format!("top:{item}:{n}"), format!("{base}{lay}{s}\n"))
}

fn defcfg_case(r: &mut Rng, dict: &[String]) -> (String, String) {
    let n = r.range(1, 3);
    let mut s = String::from("(defcfg");
    for _ in 0..n {
        s.push(' ');
        s.push_str(r.pick(dict).as_str());
        if !r.chance(1, 10) {
            s.push(' ');
            s.push_str(*r.pick(&["yes", "no", "0", "1", "65535", "65536", "()", "(a b)", "\"x\"", "a", "lctl", "-1", "(1 2)", "(a)", "true", "false", "500", "(0 0)", "(65536 1)", "( )", "\"\"", "((a))"]));
        }
    }
    s.push(')');
    ("top:defcfg-option".to_string(), format!("{s}\n(defsrc a b)\n(deflayer base a b)\n"))
}

const FILE_LINES: &[&str] = &[
    "ab\tx", "a b\tAB", "ab\t", "\tx", "nokeys", "(\tx", "a\"\tx", ")\t(", "é漢\t😀", "ab\tXY", "", "// comment", "ab\tx\ty", " a\ta", "dy 1\tMonday",
    "a\t\"", "ab\t;;", "a\tr#\"", "ab\t#|", "\u{feff}ab\tx", "ab\t(", "ab\tx y", "abc\t   ", "ab cd ef\tx", "a\t\u{2028}", "ab\t\0",
];

/// dictionary/chord files for `defzippy <file>` and `defchordsv2 (include <file>)`
fn file_case(r: &mut Rng) -> (String, String, Vec<(String, String)>) {
    let mut content = String::new();
    for _ in 0..r.below(4) {
        content.push_str(*r.pick(FILE_LINES));
        content.push_str(*r.pick(&["\n", "\n", "\r\n", ""]));
    }
    let fname = *r.pick(&["dict.txt", "dict.txt", "c.tsv", "missing.txt"]);
    let inc = if fname == "missing.txt" { vec![] } else { vec![(fname.to_string(), content)] };
    if r.chance(1, 2) {
        let arg = *r.pick(&["dict.txt", "c.tsv", "missing.txt", "", "(dict.txt)", "dict.txt dict.txt", "\"dict.txt\"", "$v1"]);
        let rest = *r.pick(&["() 100 all-released ()", "() 100 first-release (base)", "() 0 all-released ()", "() 100 all-released", "a 100 x ()", "() 100 all-released (nolayer)"]);
        let text = format!("(defcfg concurrent-tap-hold yes)\n(defvar v1 dict.txt)\n(defsrc a b c)\n(deflayer base a b c)\n(defchordsv2 (include {arg}) {rest})\n");
        ("file:chordsv2-include".to_string(), text, inc)
    } else {
        let opts = *r.pick(&[
            "", "smart-space full", "output-character-mappings (x (no-erase))", "output-character-mappings (x (no-erase a))", "output-character-mappings (x (single-output))",
            "output-character-mappings (x (single-output a b))", "output-character-mappings (x ())", "output-character-mappings (xy a)", "output-character-mappings (x)",
            "idle-reactivate-time 0", "on-first-press-chord-deadline 65536", "smart-space-punctuation (a ())", "smart-space-punctuation (? !)", "smart-space",
        ]);
        let text = format!("(defsrc a b c)\n(deflayer base a b c)\n(defzippy {fname} {opts})\n");
        ("file:defzippy".to_string(), text, inc)
    }
}

/// nested constructs up to the stated depth bound (the back end recurses on the tree)
fn deep_case(r: &mut Rng) -> (String, String) {
    let d = *r.pick(&[4usize, 16, 40, 64, 65, 66, 100, 150, 190, 197]);
    let (open, close, leaf, what): (&str, &str, &str, &str) = match r.below(12) {
        0 => ("(multi a ", ")", "b", "multi"),
        1 => ("(tap-hold 100 100 a ", ")", "b", "tap-hold"),
        2 => ("(macro a ", ")", "b", "macro"),
        3 => ("(one-shot 100 ", ")", "lsft", "one-shot"),
        4 => ("(fork a ", " (lsft))", "b", "fork"),
        5 => ("(tap-dance 100 (a ", "))", "b", "tap-dance"),
        6 => ("(switch ((or a ", ")) b break)", "c", "switch-bool"),
        7 => ("(switch () ", " break)", "b", "switch-action"),
        8 => ("(", ")", "a", "bare-lists"),
        9 => ("(t! tt ", ")", "a", "template-args"),
        10 => ("(concat a ", ")", "b", "concat"),
        _ => ("(caps-word-custom 100 (a) (", "))", "b", "caps-word"),
    };
    let mut body = String::new();
    for _ in 0..d {
        body.push_str(open);
    }
    body.push_str(leaf);
    for _ in 0..d {
        body.push_str(close);
    }
    let text = match what {
        "switch-bool" => {
            // the boolean nesting is inside one switch
            let mut b = String::from("(switch (");
            for _ in 0..d {
                b.push_str("(or a ");
            }
            b.push('c');
            for _ in 0..d {
                b.push(')');
            }
            b.push_str(") b break)");
            format!("(defsrc a)\n(deflayer base {b})\n")
        }
        "template-args" => format!("(deftemplate tt (x) $x)\n(defsrc a)\n(deflayer base {body})\n"),
        "concat" => format!("(defvar v {body})\n(defsrc a)\n(deflayer base a)\n"),
        "bare-lists" => format!("(defsrc a)\n(deflayer base {body})\n(defalias x {body})\n"),
        _ => format!("(defsrc a)\n(deflayer base {body})\n"),
    };
    (format!("deep:{what}:{d}"), text)
}

/// bounded multiplication: expansions that double a few times (sizes stay far below the limits)
fn growth_case(r: &mut Rng) -> (String, String) {
    let n = r.range(1, 6) as usize;
    if r.chance(1, 2) {
        let mut s = String::from("(defvar g0 (x x)");
        for i in 1..=n {
            s.push_str(&format!(" g{i} ($g{} $g{})", i - 1, i - 1));
        }
        s.push_str(&format!(" z (concat $g{n}))\n(defsrc a)\n(deflayer base a)\n"));
        (format!("grow:concat:{n}"), s)
    } else {
        let body = format!("{}a{}", "(t! dd ".repeat(n), ")".repeat(n));
        (format!("grow:template:{n}"), format!("(deftemplate dd (x) $x $x)\n(defsrc a)\n(deflayer base a)\n(defalias q (multi {body}))\n"))
    }
}

// ------------------------------------------------------------------------------------ front-end texts
const FE_TOKENS: &[&str] = &["(", ")", "\"", "r#\"", "\"#", "#|", "|#", ";;", "\n", " ", "a", "é", "r", "#", ";", "|", "$a", "漢", "😀", "\u{feff}", "\t", "b"];

fn fe_random(r: &mut Rng) -> String {
    let n = r.range(1, 14);
    let mut s = String::new();
    for _ in 0..n {
        s.push_str(*r.pick(FE_TOKENS));
    }
    s
}

/// all strings of at most `n` tokens over the first `k` front-end tokens
fn fe_exhaustive(k: usize, n: usize) -> Vec<String> {
    let mut out = vec![String::new()];
    let mut layer = vec![String::new()];
    for _ in 0..n {
        let mut next = vec![];
        for s in &layer {
            for t in &FE_TOKENS[..k] {
                next.push(format!("{s}{t}"));
            }
        }
        out.extend(next.iter().cloned());
        layer = next;
    }
    out
}

const VAR_TMPL_TEXTS: &[&str] = &[
    "(defvar a b)(defsrc a)(deflayer base $a)",
    "(defvar a $b b c)(defsrc a)(deflayer base $a)",
    "(defvar a $b b $c c $d d (x y))(defsrc)(deflayer base)",
    "(defvar a (concat x $b \"y z\" (q r)) b w)",
    "(defvar a b a c)",
    "(defvar a)",
    "(defvar (a) b)",
    "(defvar a (concat a $a))",
    "(deftemplate t1 (x) $x $x)(t! t1 (defsrc))(deflayer base)",
    "(deftemplate t1 (x) (if-equal $x a (defsrc a)) (if-not-equal $x a (defsrc b)))(t! t1 a)(deflayer base a)",
    "(deftemplate t1 (x) (if-in-list $x (a b) (defsrc a)) (if-not-in-list $x (a b) (defsrc b)))(t! t1 c)(deflayer base a)",
    "(deftemplate t1 (x y) (concat $x $y))(defsrc a)(deflayer base (t! t1 l ctl))",
    "(deftemplate t1 () a)(deftemplate t2 () (t! t1))(defsrc a)(deflayer base (t! t2))",
    "(deftemplate t1 (x))(deftemplate t1 (y))",
    "(deftemplate t1 (x) (deftemplate))",
    "(deftemplate t1 (x) (t! nope))",
    "(deftemplate t1 x)",
    "(deftemplate)",
    "(deftemplate (a))",
    "(t! nope)",
    "(t!)",
    "(t! (a))",
    "(deftemplate t1 (x) $x)(t! t1)",
    "(deftemplate t1 (x) $x)(t! t1 a b)",
    "(deftemplate t1 (x) a)(t! t1 b)",
    "(deftemplate t1 (x) (if-equal))(t! t1 b)",
    "(deftemplate t1 (x) (if-equal a))(t! t1 b)",
    "(deftemplate t1 (x) (if-equal (a) b))(t! t1 b)",
    "(deftemplate t1 (x) (if-in-list a b))(t! t1 b)",
    "(deftemplate t1 (x) ((if-equal $x b (concat $x c))))(defsrc (t! t1 b))",
    "(deftemplate t1 (x) (concat))(defsrc (t! t1 b))",
];

// ------------------------------------------------------------------------------------ defvar reference graphs
/// One configuration whose `defvar` items define `v0..v{n-1}`; `edges[i]` lists the variables that
/// the value of `v{i}` refers to (any order of definition, so an edge to a larger index is a forward
/// reference). `shape[i]` selects how the value is written:
///   0 = `(multi a $x $y ..)`, 1 = a bare `$x` when there is exactly one edge (else as 0),
///   2 = references nested two lists deep, 3 = `(concat $x .. )` (evaluated while the table is built:
///   earlier variables are resolved to text, later ones stay `$name` text), 4 = `(concat "$" x)` (the
///   reference is produced by `concat` and exists only in the stored value), 5 = as 0 with every
///   reference twice. `split` = start a new `(defvar` item before these definitions.
/// Every variable is then used in the layer, so an accepted table is also resolved by the loader.
fn vargraph_text(n: usize, order: &[usize], edges: &[Vec<usize>], shape: &[u8], split: &[bool]) -> String {
    const KEYS: &[&str] = &["a", "b", "c", "d", "e", "f", "g", "h"];
    let mut s = String::from("(defvar");
    for (k, &i) in order.iter().enumerate() {
        if k > 0 && split[k] {
            s.push_str(")\n(defvar");
        }
        let refs: Vec<String> = edges[i].iter().map(|j| format!("$v{j}")).collect();
        let val = match shape[i] {
            1 if refs.len() == 1 => refs[0].clone(),
            2 => format!("(multi a (macro {} (b)) {})", refs.iter().take(1).cloned().collect::<Vec<_>>().join(" "), refs.iter().skip(1).map(|r| format!("(({r}))")).collect::<Vec<_>>().join(" ")),
            3 => format!("(concat {} k)", refs.join(" ")),
            4 if refs.len() == 1 => format!("(concat \"$\" v{})", edges[i][0]),
            5 => format!("(multi a {} {})", refs.join(" "), refs.join(" ")),
            _ => format!("(multi a {})", refs.join(" ")),
        };
        s.push_str(&format!(" v{i} {val}"));
    }
    s.push_str(")\n(defsrc");
    for k in 0..n {
        s.push_str(&format!(" {}", KEYS[k % KEYS.len()]));
    }
    s.push_str(")\n(deflayer base");
    for k in 0..n {
        s.push_str(&format!(" $v{k}"));
    }
    s.push_str(")\n");
    s
}

/// the defvar-graph family: all 512 reference graphs on three variables (list values), and random
/// graphs on 2..=7 variables with random definition order, value shapes and item boundaries; the
/// edge density is drawn so that about half of the random graphs have a cycle
fn vargraph_cases(r: &mut Rng, thorough: bool) -> Vec<(String, String)> {
    let mut out = vec![];
    for g in 0..512u32 {
        let edges: Vec<Vec<usize>> = (0..3).map(|i| (0..3).filter(|j| g >> (3 * i + j) & 1 == 1).collect()).collect();
        out.push((format!("vg:exh3:{g}"), vargraph_text(3, &[0, 1, 2], &edges, &[0, 0, 0], &[false; 3])));
    }
    for _ in 0..(if thorough { 12000 } else { 1500 }) {
        let n = r.range(2, 7) as usize;
        let mut order: Vec<usize> = (0..n).collect();
        for k in (1..n).rev() {
            order.swap(k, r.below(k as u64 + 1) as usize);
        }
        // expected out-degree between 0.2 and 1.0
        let num = r.range(2, 10);
        let edges: Vec<Vec<usize>> = (0..n).map(|_| (0..n).filter(|_| r.chance(num, 10 * n as u64)).collect()).collect();
        let shape: Vec<u8> = (0..n).map(|_| if r.chance(1, 2) { r.below(2) as u8 } else { r.below(6) as u8 }).collect();
        let split: Vec<bool> = (0..n).map(|_| r.chance(1, 4)).collect();
        out.push((format!("vg:rnd:{n}"), vargraph_text(n, &order, &edges, &shape, &split)));
    }
    out
}

// ------------------------------------------------------------------------------------ generator
const WRAP_SRC: &str = "(defsrc a b c)\n";
const WRAP_LAYER: &str = "(deflayer base a b c)\n";
pub const MAX_TEXT: usize = 64 * 1024;
pub const MAX_DEPTH: usize = 200;

/// The inputs of DESIGN.md §7 rows 5, 6, 9, 10, 11, 12 as complete configurations.
pub fn known_crashers() -> Vec<(&'static str, String, Vec<(String, String)>)> {
    let w = |body: &str| format!("{WRAP_SRC}{WRAP_LAYER}{body}\n");
    vec![
        ("known:5-debug-empty-list", w("(defalias () a)"), vec![]),
        ("known:6-fakekey-delay-arity", "(defsrc a)\n(deflayer base (on-press-fakekey-delay))\n".to_string(), vec![]),
        ("known:9-defvar-self", "(defvar a $a)\n(defsrc a)\n(deflayer base $a)\n".to_string(), vec![]),
        ("known:10-template-diverges", w("(deftemplate a (x y) ($x a $x $y))\n(defalias q (t! a t! t!))"), vec![]),
        ("known:11-chordsv2-include", format!("(defcfg concurrent-tap-hold yes)\n{}", w("(defchordsv2 (include nofile.txt) () 100 all-released ())")), vec![]),
        ("known:12-zippy-no-erase", w("(defzippy f output-character-mappings (x (no-erase)))"), vec![("f".to_string(), "a\tb\n".to_string())]),
    ]
}

fn within_bounds(text: &str) -> bool {
    if text.len() > MAX_TEXT {
        return false;
    }
    // parenthesis depth as the lexer would see it at worst (quotes/comments ignored: an upper bound)
    let mut d = 0usize;
    let mut m = 0usize;
    for b in text.bytes() {
        if b == b'(' {
            d += 1;
            m = m.max(d);
        } else if b == b')' {
            d = d.saturating_sub(1);
        }
    }
    m <= MAX_DEPTH
}

pub fn gen(tier: &str, seed: u64) -> Vec<String> {
    let thorough = tier == "thorough";
    let mut r = Rng::new(seed ^ 0xC03);
    let mut out: Vec<String> = vec![];
    let (seeds, includes) = load_seeds();
    let names = list_action_names();
    let dict = keyword_dictionary();
    let mut small_includes: Vec<(String, String)> = includes.iter().filter(|(_, c)| c.len() < 2048).cloned().collect();
    // names the test-suite configurations use for their dictionary files
    small_includes.push(("file".to_string(), "dy\tday\ndy 1\tMonday\n abc\tAlphabet\nr df\trecipient\n w  a\tWashington\n".to_string()));
    small_includes.push(("test.zch".to_string(), "ab\tabout\n".to_string()));
    let push = |out: &mut Vec<String>, r: &mut Rng, tag: &str, text: &str, inc: &[(String, String)]| {
        if !within_bounds(text) {
            return;
        }
        let tag = tag.replace(' ', "_");
        // include files are attached only when the text mentions them
        let inc: Vec<(String, String)> = inc.iter().filter(|(n, _)| text.contains(n.as_str())).cloned().collect();
        let mode = if r.chance(1, 8) || (text.contains("defchordsv2") && text.contains("include") && r.chance(1, 2)) { 'f' } else { 's' };
        out.push(case_line(mode, &tag, text, &inc));
    };

    // 0. the reproduced defects of the design phase, and the unmodified seeds
    for (tag, text, inc) in known_crashers() {
        out.push(case_line('s', tag, &text, &inc));
        out.push(case_line('f', tag, &text, &inc));
    }
    for t in VAR_TMPL_TEXTS {
        push(&mut out, &mut r, "vt", t, &[]);
    }
    for s in &seeds {
        if thorough || s.text.len() < 8192 || s.name.starts_with("sample:") {
            push(&mut out, &mut r, &format!("seed:{}", s.name), &s.text, &small_includes);
        }
    }

    // 1. structure-aware mutations of every seed
    let forests: Vec<(usize, Vec<Node>)> = seeds.iter().enumerate().filter_map(|(i, s)| read_forest(&s.text).map(|f| (i, f))).collect();
    let donors: Vec<Vec<Node>> = forests.iter().filter(|(i, _)| seeds[*i].text.len() < 6000).map(|(_, f)| f.clone()).collect();
    let cx = Ctx { names: &names, dict: &dict, donors: &donors };
    for (i, f) in &forests {
        let s = &seeds[*i];
        let big = s.text.len() > 16384;
        let per_seed = match (thorough, big, s.name.starts_with("sample:")) {
            (false, true, _) => 60,
            (false, false, true) => 300,
            (false, false, false) => 40,
            (true, true, _) => 600,
            (true, false, true) => 3000,
            (true, false, false) => 400,
        };
        for _ in 0..per_seed {
            let mut g = f.clone();
            let k = 1 + r.below(3);
            let mut ops = vec![];
            for _ in 0..k {
                ops.push(mutate_once(&mut r, &mut g, &cx));
            }
            if g.iter().map(depth).max().unwrap_or(0) > MAX_DEPTH {
                continue;
            }
            let text = print_forest(&g);
            push(&mut out, &mut r, &format!("mut:{}:{}", s.name, ops.join("+")), &text, &small_includes);
        }
    }

    // 2. grammar: every list action with 0..=5 arguments of plausible kinds in every context
    let reps = if thorough { 6 } else { 2 };
    for name in &names {
        for nargs in 0..=5usize {
            for c in 0..CONTEXTS.len() {
                if !thorough && !(r.chance(1, 2) || nargs == 0) {
                    continue;
                }
                for _ in 0..reps {
                    let (tag, text) = grammar_case(&mut r, name, nargs, c);
                    push(&mut out, &mut r, &tag, &text, &small_includes);
                }
            }
        }
    }
    for _ in 0..(if thorough { 60000 } else { 6000 }) {
        let (tag, text) = match r.below(12) {
            0 => localkeys_case(&mut r),
            1..=7 => toplevel_case(&mut r, &dict),
            _ => defcfg_case(&mut r, &dict),
        };
        push(&mut out, &mut r, &tag, &text, &small_includes);
    }

    for _ in 0..(if thorough { 20000 } else { 2000 }) {
        let (tag, text, inc) = file_case(&mut r);
        if within_bounds(&text) {
            let mode = if text.contains("defchordsv2") || r.chance(1, 4) { 'f' } else { 's' };
            out.push(case_line(mode, &tag, &text, &inc));
        }
    }

    for _ in 0..(if thorough { 1500 } else { 150 }) {
        let (tag, text) = deep_case(&mut r);
        push(&mut out, &mut r, &tag, &text, &[]);
    }
    for _ in 0..(if thorough { 400 } else { 40 }) {
        let (tag, text) = growth_case(&mut r);
        push(&mut out, &mut r, &tag, &text, &[]);
    }
    // a seed split over a main file and an included file; the included part is then mutated, so
    // diagnostics must name the included file and lie inside *its* content
    for (i, f) in &forests {
        let s = &seeds[*i];
        if f.len() < 3 || s.text.len() > 16384 {
            continue;
        }
        let reps = if thorough { 6 } else if s.name.starts_with("sample:") { 2 } else if r.chance(1, 6) { 1 } else { 0 };
        for _ in 0..reps {
            let k = 1 + r.below(f.len() as u64 - 1) as usize;
            let mut inc_forest: Vec<Node> = f[k..].to_vec();
            let mut ops = vec![];
            for _ in 0..r.below(3) {
                ops.push(mutate_once(&mut r, &mut inc_forest, &cx));
            }
            let mut inc_text = print_forest(&inc_forest);
            if r.chance(1, 4) {
                let (t2, op) = mutate_bytes(&mut r, &inc_text);
                inc_text = t2;
                ops.push(op);
            }
            if r.chance(1, 5) {
                inc_text = format!("\u{feff}{inc_text}");
            }
            let main_text = format!("{}(include part2.kbd)\n", print_forest(&f[..k]));
            if !within_bounds(&main_text) || !within_bounds(&inc_text) {
                continue;
            }
            let mode = if r.chance(1, 2) { 'f' } else { 's' };
            out.push(case_line(mode, &format!("inc:{}:{}", s.name, ops.join("+")).replace(' ', "_"), &main_text, &[("part2.kbd".to_string(), inc_text)]));
        }
    }

    // 3. raw mutations (on character boundaries)
    for s in &seeds {
        let big = s.text.len() > 16384;
        let n = match (thorough, big, s.name.starts_with("sample:")) {
            (false, true, _) => 30,
            (false, false, true) => 100,
            (false, false, false) => 10,
            (true, true, _) => 300,
            (true, false, true) => 1000,
            (true, false, false) => 100,
        };
        for _ in 0..n {
            let (mut t, mut ops) = (s.text.clone(), vec![]);
            for _ in 0..(1 + r.below(3)) {
                let (t2, op) = mutate_bytes(&mut r, &t);
                t = t2;
                ops.push(op);
            }
            push(&mut out, &mut r, &format!("raw:{}:{}", s.name, ops.join("+")), &t, &small_includes);
        }
    }

    // 3b. strings computed by `concat` (quote characters inside raw strings, empty strings, pieces that
    // only together form a quoted string) bound to a variable and then read by every consumer that trims
    // quotes a second time: another concat, unicode, push-msg, clipboard-set, a layer icon, a macro
    // item, a key name. Two sites cooperate here (concat strips the delimiters, the consumer trims
    // again); neither alone sees the one-character atom `"`. Exhaustive over 1-2 pieces x consumers.
    {
        const PIECES: &[&str] = &[
            "r#\"\"\"#", "r#\"\"\"\"#", "r#\"a\"\"#", "r#\"\"a\"#", "\"\"", "\"a\"", "r#\"\"#", "a", "r#\"\"a\"\"#", "r#\" \"#",
        ];
        let consumers: &[&dyn Fn(&str) -> String] = &[
            &|v| format!("(defvar w (concat {v} hello)) (defsrc a) (deflayer base (unicode $w))"),
            &|v| format!("(defsrc a) (deflayer base (unicode {v}))"),
            &|v| format!("(defsrc a) (deflayer base (push-msg {v}))"),
            &|v| format!("(defsrc a) (deflayer base (clipboard-set {v}))"),
            &|v| format!("(defsrc a) (deflayer (base icon {v}) a)"),
            &|v| format!("(defsrc a) (deflayer base (macro {v}))"),
            &|v| format!("(defsrc a) (deflayer base {v})"),
            &|v| format!("(defsrc a) (deflayer base (concat {v}))"),
            &|v| format!("(deftemplate t (x) (unicode (concat $x {v}))) (defsrc a) (deflayer base (t! t {v}))"),
        ];
        let mut vals: Vec<String> = vec![];
        for a in PIECES {
            vals.push((*a).to_string());
            for b in PIECES {
                vals.push(format!("{a} {b}"));
            }
        }
        for (vi, v) in vals.iter().enumerate() {
            for (ci, c) in consumers.iter().enumerate() {
                if !thorough && vi >= PIECES.len() + 1 && (vi + ci) % 3 != (seed as usize) % 3 {
                    continue;
                }
                let text = format!("(defvar dq (concat {v})) {}", c("$dq"));
                push(&mut out, &mut r, &format!("quote:{vi}:{ci}"), &text, &[]);
                if vi < PIECES.len() {
                    // the piece written directly where the variable would stand
                    push(&mut out, &mut r, &format!("quote:direct:{vi}:{ci}"), &c(v), &[]);
                }
            }
        }
    }

    // 4. front-end texts: exhaustive short token strings, random longer ones
    for t in fe_exhaustive(if thorough { 16 } else { 12 }, 3) {
        out.push(case_line('s', "fe:exh", &t, &[]));
    }
    for _ in 0..(if thorough { 200000 } else { 20000 }) {
        let t = fe_random(&mut r);
        out.push(case_line('s', "fe:rnd", &t, &[]));
    }
    out.extend(crate::c03cov::gen_extra(tier, seed));

    // 5. defvar reference graphs (own generator state, so the families above are unchanged): the cycle
    // check of `parse_vars` against its model, accept/refuse and the table (Props/C03vars.lean)
    let mut rv = Rng::new(seed ^ 0xC03_7A45);
    for (tag, text) in vargraph_cases(&mut rv, thorough) {
        let mode = if rv.chance(1, 8) { 'f' } else { 's' };
        out.push(case_line(mode, &tag, &text, &[]));
    }
    out
}
