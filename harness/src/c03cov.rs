//! C03, coverage-guided extra families (runner/coverage.py, DESIGN.md 10.6).
//!
//! Every family below aims at branches of the loader that the quick tier of `c03::gen` did not
//! execute (the line numbers are those of the pinned source and only orient the reader).  The
//! case lines use the formats `c03::eval` already understands (`c03::case_line`).  Everything is a
//! deterministic function of the seeded PRNG: the shapes are fixed, the PRNG chooses key names,
//! counts next to the limits and the load mode, so different seeds visit different neighbours of
//! the same branch.  The configurations are structured and mostly valid: each one is a complete
//! configuration in which exactly one construct sits at, or one step beyond, the limit the
//! branch tests.
//!
//! Hook: one line at the end of `c03::gen`, before it returns its vector (named `out` there):
//! `out.extend(crate::c03cov::gen_extra(tier, seed));`, and `mod c03cov;` in main.rs.
use crate::c03::case_line;
use crate::rng::Rng;

const KEYS: &[&str] = &["a", "b", "c", "d", "e", "f", "g", "h", "i", "j", "1", "2", "spc", "lsft", "rctl", "f13", "kp1", "mwu", "mlft"];

struct Out<'a> {
    r: &'a mut Rng,
    lines: Vec<String>,
}

impl Out<'_> {
    /// both loaders (`new_from_str` and `new_from_file`)
    fn both(&mut self, tag: &str, text: &str, inc: &[(String, String)]) {
        self.lines.push(case_line('s', tag, text, inc));
        self.lines.push(case_line('f', tag, text, inc));
    }
    /// one loader, chosen by the PRNG (1 in 4: from a file)
    fn one(&mut self, tag: &str, text: &str, inc: &[(String, String)]) {
        let mode = if self.r.chance(1, 4) { 'f' } else { 's' };
        self.lines.push(case_line(mode, tag, text, inc));
    }
    fn key(&mut self) -> &'static str {
        *self.r.pick(KEYS)
    }
}

fn wrap(body: &str) -> String {
    format!("(defsrc a b c)\n(deflayer base a b c)\n{body}\n")
}

fn in_layer(action: &str) -> String {
    format!("(defsrc a b c)\n(deflayer base {action} b c)\n(deflayer l2 a b c)\n")
}

fn inc(name: &str, content: &str) -> Vec<(String, String)> {
    vec![(name.to_string(), content.to_string())]
}

/// `n` distinct names `p0 p1 ...` separated by blanks, each followed by `suffix`
fn numbered(prefix: &str, n: usize, suffix: &str) -> String {
    let mut s = String::new();
    for i in 0..n {
        s.push_str(&format!("{prefix}{i}{suffix} "));
    }
    s
}

// ------------------------------------------------------------------------------------ include
/// cfg/mod.rs `parse_cfg_raw` (the file reader behind `new_from_file`): an absolute include path
/// (l.440), a path that cannot be resolved (l.446-451), the same file included twice (l.457-458),
/// an include inside an included file, a directory as include target; and the same texts through
/// `new_from_str`, whose file map knows none of the absolute names.
fn fam_include(o: &mut Out) {
    let k = o.key();
    let part = format!("(defalias q {k})\n");
    o.both("cov:include:twice", "(defsrc a)\n(deflayer base a)\n(include part2.kbd)\n(include part2.kbd)\n", &inc("part2.kbd", &part));
    o.both("cov:include:twice-other-spelling", "(defsrc a)\n(deflayer base a)\n(include part2.kbd)\n(include \"part2.kbd\")\n", &inc("part2.kbd", &part));
    o.both("cov:include:absolute-empty", "(defsrc a)\n(deflayer base a)\n(include /dev/null)\n", &[]);
    o.both("cov:include:absolute-twice", "(defsrc a)\n(deflayer base a)\n(include /dev/null)\n(include /dev/null)\n", &[]);
    o.both("cov:include:absolute-missing", "(defsrc a)\n(deflayer base a)\n(include /nonexistent-kv-c03/x.kbd)\n", &[]);
    o.both("cov:include:directory", "(defsrc a)\n(deflayer base a)\n(include .)\n", &[]);
    o.both("cov:include:absolute-directory", "(defsrc a)\n(deflayer base a)\n(include /)\n", &[]);
    o.both("cov:include:itself", "(defsrc a)\n(deflayer base a)\n(include main.kbd)\n", &[]);
    o.both("cov:include:nested", "(defsrc a)\n(deflayer base a)\n(include part2.kbd)\n", &inc("part2.kbd", "(include part2.kbd)\n"));
    o.both("cov:include:needed-part", "(include part2.kbd)\n(deflayer base a)\n", &inc("part2.kbd", "(defsrc a)\n"));
    o.both("cov:include:list-name", "(defsrc a)\n(deflayer base a)\n(include (part2.kbd))\n", &inc("part2.kbd", &part));
    o.both("cov:include:two-names", "(defsrc a)\n(deflayer base a)\n(include part2.kbd part2.kbd)\n", &inc("part2.kbd", &part));
}

// ------------------------------------------------------------------------------------ environment
/// cfg/platform.rs `filter_env_specific_cfg` (l.94-178) and cfg/mod.rs `parse_defaliasenvcond`
/// (l.1514-1575): malformed name/value pairs (lists where strings are required, l.122-127 and
/// l.1522-1533) and every arm of the comparison with the process environment: variable unset,
/// set with another value, set and required empty, set with the required value.  `PATH` is set in
/// every run; the other pairs name values that are usual on the machines the check runs on, so the
/// "value matches" arm is reached on most of them (the property holds whichever arm is taken).
/// Only `new_from_file` hands the process environment to the parser (`new_from_str` answers
/// "environment variables are not supported"), so every text is loaded both ways.
fn fam_environment(o: &mut Out) {
    let k = o.key();
    let pairs: &[&str] = &[
        "(PATH kv-no-such-value)", "(PATH \"\")", "(KV_C03_UNSET_VARIABLE x)", "(KV_C03_UNSET_VARIABLE \"\")", "(HOME /root)", "(HOME \"/root\")", "(USER root)",
        "(LOGNAME root)", "(SHELL /bin/bash)", "(SHELL /bin/sh)", "(LANG C.UTF-8)", "(LANG en_US.UTF-8)", "(TERM xterm)", "(TERM dumb)", "(KV_REPO /repo)", "(PWD /verif)",
        "(KV_C03_EMPTY \"\")", "(KV_C03_SET on)",
        // malformed
        "((PATH) x)", "(PATH (x))", "(PATH)", "(PATH x y)", "()", "PATH", "($v x)",
    ];
    for p in pairs {
        let t = format!("(defsrc a b c)\n(deflayer base a b c)\n(environment {p} (defalias e1 {k}))\n");
        o.both("cov:env:filter", &t, &[]);
        let t = format!("(defsrc a b c)\n(environment {p} (deflayer base a b c))\n(deflayer l2 a b c)\n");
        o.both("cov:env:filter-layer", &t, &[]);
        let t = wrap(&format!("(defaliasenvcond {p} e1 {k} e2 (multi @e1 b))\n(defalias e3 c)"));
        o.both("cov:env:aliasenvcond", &t, &[]);
    }
    for rest in ["", "(defalias e1 a) extra", "defalias", "(defalias)", "()", "((defalias e1 a))"] {
        let t = wrap(&format!("(environment (PATH x) {rest})"));
        o.both("cov:env:filter-shape", &t, &[]);
        let t = wrap(&format!("(environment (KV_C03_UNSET_VARIABLE \"\") {rest})"));
        o.both("cov:env:filter-shape", &t, &[]);
    }
    for rest in ["", "e1", "e1 a e2", "(e1) a", "e1 (unknown-action)", "e1 @e1"] {
        let t = wrap(&format!("(defaliasenvcond (PATH x) {rest})"));
        o.both("cov:env:aliasenvcond-shape", &t, &[]);
        let t = wrap(&format!("(defaliasenvcond (KV_C03_UNSET_VARIABLE x) {rest})"));
        o.both("cov:env:aliasenvcond-shape", &t, &[]);
    }
    // the variable table is consulted for the pair of defaliasenvcond, not for the one of environment
    let t = format!("(defvar pair (PATH x) nm PATH)\n{}", wrap("(defaliasenvcond $pair e1 a)\n(defaliasenvcond ($nm x) e2 a)\n(environment ($nm x) (defalias e3 a))"));
    o.both("cov:env:variables", &t, &[]);
}

// ------------------------------------------------------------------------------------ actions
/// cfg/mod.rs, single branches of action parsers and of the post-processing of parsed layers.
fn fam_actions(o: &mut Out) {
    let (k1, k2) = (o.key(), o.key());
    // l.367-368: alias-to-trigger-on-load puts the alias' action into the action queue
    o.both("cov:act:start-alias", &format!("(defcfg alias-to-trigger-on-load go)\n{}", wrap(&format!("(defalias go (multi {k1} (macro {k2} 10 {k1})))"))), &[]);
    o.one("cov:act:start-alias-unknown", &format!("(defcfg alias-to-trigger-on-load nope)\n{}", wrap("(defalias go a)")), &[]);
    o.one("cov:act:start-alias-list", &format!("(defcfg alias-to-trigger-on-load (go))\n{}", wrap("(defalias go a)")), &[]);
    o.one("cov:act:start-alias-envcond", &format!("(defcfg alias-to-trigger-on-load go)\n{}", wrap("(defaliasenvcond (KV_C03_UNSET_VARIABLE x) go a)")), &[]);
    // l.1780-1781: the overlap prefix outside defseq
    for a in ["O-a", "O-S-a", "S-O-a", "(multi O-a b)", "(macro O-a)", "(macro O-(a b))", "(tap-hold 100 100 O-a b)", "O-", "O-O-a"] {
        o.one("cov:act:overlap-prefix", &in_layer(a), &[]);
    }
    // l.1694-1709: horizontal wheel notches as bare actions
    for a in ["mwl", "mwr", "mousewheelleft", "mousewheelright", "(multi mwl mwr mwu mwd)"] {
        o.one("cov:act:wheel-notch", &in_layer(a), &[]);
    }
    // l.2028-2029, l.2061-2062: a tap-hold as the tap action of the five-argument variants
    let inner = format!("(tap-hold 100 100 {k1} {k2})");
    for v in ["tap-hold-press-timeout", "tap-hold-release-timeout", "tap-hold-release-keys", "tap-hold-except-keys"] {
        let last = if v.ends_with("keys") { "(a b)" } else { "c" };
        o.one("cov:act:tap-hold-in-tap", &in_layer(&format!("({v} 100 100 {inner} {k2} {last})")), &[]);
        o.one("cov:act:tap-hold-in-tap", &format!("(defalias th {inner})\n{}", in_layer(&format!("({v} 100 100 @th {k2} {last})"))), &[]);
        // in the hold position it is allowed
        o.one("cov:act:tap-hold-in-hold", &in_layer(&format!("({v} 100 100 {k2} {inner} {last})")), &[]);
    }
    // l.2732-2733: empty tap-dance list (also through a variable)
    for v in ["tap-dance", "tap-dance-eager"] {
        o.one("cov:act:tap-dance-empty", &in_layer(&format!("({v} 200 ())")), &[]);
        o.one("cov:act:tap-dance-empty", &format!("(defvar e ())\n{}", in_layer(&format!("({v} 200 $e)"))), &[]);
    }
    // l.3248-3249: movemouse-accel with min distance above max distance; equal is accepted
    for d in ["up", "down", "left", "right"] {
        let lo = o.r.range(1, 29999);
        let hi = o.r.range(lo + 1, 30000);
        o.one("cov:act:mouse-accel-min-above-max", &in_layer(&format!("(movemouse-accel-{d} 10 100 {hi} {lo})")), &[]);
        o.one("cov:act:mouse-accel-min-is-max", &in_layer(&format!("(movemouse-accel-{d} 10 100 {lo} {lo})")), &[]);
    }
}

// ------------------------------------------------------------------------------------ capacities
/// cfg/mod.rs capacity limits: chord keys per defchords group (`MAX_CHORD_KEYS` = 128, l.2870),
/// duplicate group (l.2883), number of fake/virtual keys (`KEYS_IN_ROW` = 767, l.3133, l.3177);
/// at the limit (accepted) and one beyond (diagnostic).
fn fam_capacities(o: &mut Out) {
    let k = o.key();
    for n in [127usize, 128, 129, 130 + o.r.below(40) as usize] {
        // all keys in one chord
        o.one(&format!("cov:cap:chord-keys-one-list:{n}"), &wrap(&format!("(defchords big 100 ({}) {k})", numbered("k", n, ""))), &[]);
        // one key per chord
        let mut body = String::from("(defchords big 100 ");
        for i in 0..n {
            body.push_str(&format!("(k{i}) {k} "));
        }
        body.push(')');
        o.one(&format!("cov:cap:chord-keys-many-lists:{n}"), &wrap(&body), &[]);
    }
    // the 129th key used in a layer
    o.one("cov:cap:chord-keys-used", &format!("(defchords big 100 ({}) {k})\n(defsrc a b c)\n(deflayer base (chord big k127) (chord big k128) c)\n", numbered("k", 128, "")), &[]);
    o.both("cov:cap:chord-group-twice", &wrap(&format!("(defchords cg 100 (a) {k})\n(defchords cg 100 (b) {k})")), &[]);
    o.one("cov:cap:chord-group-twice-used", &format!("(defchords cg 100 (a) {k})\n(defchords cg 200 (a) b)\n{}", in_layer("(chord cg a)")), &[]);
    for n in [766usize, 767, 768, 769 + o.r.below(60) as usize] {
        o.one(&format!("cov:cap:fakekeys:{n}"), &wrap(&format!("(deffakekeys {})", numbered("f", n, &format!(" {k}")))), &[]);
        o.one(&format!("cov:cap:virtualkeys:{n}"), &wrap(&format!("(defvirtualkeys {})", numbered("v", n, &format!(" {k}")))), &[]);
        // split over both items and over two items of one kind
        let h = n / 2;
        o.one(&format!("cov:cap:fake+virtual:{n}"), &wrap(&format!("(deffakekeys {})\n(defvirtualkeys {})", numbered("f", h, " a"), numbered("v", n - h, " b"))), &[]);
        o.one(&format!("cov:cap:virtual+fake:{n}"), &wrap(&format!("(defvirtualkeys {})\n(deffakekeys {})", numbered("v", h, " a"), numbered("f", n - h, " b"))), &[]);
    }
    // the last virtual key is usable
    o.one("cov:cap:virtualkeys-last-used", &format!("(defvirtualkeys {})\n{}", numbered("v", 767, " a"), in_layer("(on-press-fakekey v766 tap)")), &[]);
}

// ------------------------------------------------------------------------------------ sequences
/// cfg/mod.rs `parse_sequences` / `parse_sequence_keys`: overlap lists with 0, 1, 2, 6 and 7
/// elements (l.3601-3605, l.3615-3624), an overlap list under another modifier (l.3716-3722), a
/// modifier prefix on an empty list (l.3737-3743).
fn fam_sequences(o: &mut Out) {
    let seqs: &[&str] = &[
        "(O-())", "(O-() a)", "(a O-())", "(O-(a))", "(O-(a) b)", "(O-(a b))", "(O-(a b c d e f))", "(O-(a b c d e f g))", "(O-(a b) O-(c d))", "(O-(a b) O-())",
        "(S-O-(a b))", "(O-S-(a b))", "(O-(S-a b))", "(O-(a S-b))", "(C-O-(a b) c)", "(O-(O-(a b) c))", "(O-a)", "(O-a b)", "(S-(O-a b))",
        "(C-S-())", "(S-())", "(C-())", "(a C-S-() b)", "(C-S-(a) S-())", "(S-(a C-()))", "(O-(a b) C-())",
    ];
    for q in seqs {
        let k = o.key();
        o.one("cov:seq:overlap-and-empty-lists", &format!("(defvirtualkeys vk1 {k})\n{}", wrap(&format!("(defseq vk1 {q})"))), &[]);
    }
    // the same lists after an accepted sequence (ancestor/descendant checks run on every permutation)
    for q in ["(O-(a b))", "(O-(a b) c)", "(a O-(b c))", "(O-(b a))"] {
        o.one("cov:seq:overlap-conflict", &format!("(defvirtualkeys vk1 a vk2 b)\n{}", wrap(&format!("(defseq vk1 (O-(a b)) vk2 {q})"))), &[]);
    }
}

// ------------------------------------------------------------------------------------ switch
/// cfg/switch.rs `parse_switch_case_bool`: the opcode capacity `MAX_OPCODE_LEN` = 4095 on the
/// item list (l.60-64) and inside an operator list (l.283-285), and the malformed list items:
/// `input` with an unknown key type (l.161) or a list as key name (l.165-167, l.194-196),
/// `key-timing` with a list as comparison (l.219-224).
fn fam_switch(o: &mut Out) {
    let k = o.key();
    for n in [4094usize, 4095, 4096, 4097] {
        let items = format!("{k} ").repeat(n);
        o.one(&format!("cov:switch:items:{n}"), &in_layer(&format!("(switch ({items}) a break)")), &[]);
        o.one(&format!("cov:switch:or-items:{n}"), &in_layer(&format!("(switch ((or {items})) a break)")), &[]);
        // two-opcode items straddle the limit
        let pairs = format!("(input real {k}) ").repeat(n / 2);
        o.one(&format!("cov:switch:and-pairs:{n}"), &in_layer(&format!("(switch ((and {k} {pairs})) a break)")), &[]);
    }
    let bad: &[&str] = &[
        "(input foo a)", "(input (real) a)", "(input real (a))", "(input virtual (vk1))", "(input real nokey)", "(input virtual nokey)", "(input real)",
        "(input-history foo a 1)", "(input-history real (a) 1)", "(input-history virtual (vk1) 1)", "(input-history real a 9)", "(input-history real a)",
        "(key-timing 1 (lt) 100)", "(key-timing 1 () 100)", "(key-timing 1 le 100)", "(key-timing 9 lt 100)", "(key-timing 1 lt)", "(key-history (a) 1)",
        "(layer (base))", "(base-layer nolayer)", "(layer)", "(not)", "(or)", "(and)", "()", "(nop a)",
    ];
    for b in bad {
        o.one("cov:switch:malformed-item", &format!("(defvirtualkeys vk1 a)\n{}", in_layer(&format!("(switch ({b}) a break)"))), &[]);
        o.one("cov:switch:malformed-item", &format!("(defvirtualkeys vk1 a)\n{}", in_layer(&format!("(switch ((or {k} (not {b}))) a break)"))), &[]);
    }
}

// ------------------------------------------------------------------------------------ defcfg
/// cfg/defcfg.rs: `linux-x11-repeat-delay-rate` with a bad first / second number (l.333-340) and
/// device lists holding an empty string (`parse_dev`, l.899-906).
fn fam_defcfg(o: &mut Out) {
    for v in ["x,25", "200,y", "200,25", "65536,25", "200,65536", "200", "200,25,1", ",", "\"200,25\"", "\" 200,25\"", "-1,2", "(200,25)", "200,", ",25"] {
        o.one("cov:defcfg:x11-repeat", &format!("(defcfg linux-x11-repeat-delay-rate {v})\n(defsrc a)\n(deflayer base a)\n"), &[]);
    }
    for opt in ["linux-dev", "linux-dev-names-include", "linux-dev-names-exclude", "macos-dev-names-include", "windows-interception-keyboard-hwids"] {
        for v in ["(\"\")", "(a \"\" b)", "(a \"\")", "\"\"", "\":\"", "(a (b))", "((a))", "()", "(\"a b\" c)", "a:b", "\"a::b\""] {
            o.one(&format!("cov:defcfg:device-list:{opt}"), &format!("(defcfg {opt} {v})\n(defsrc a)\n(deflayer base a)\n"), &[]);
        }
    }
}

// ------------------------------------------------------------------------------------ templates
/// cfg/deftemplate.rs `expand`: the budget of `MAX_EXPANDED_NODES` = 1,000,000 produced items
/// (l.340-347) reached by expansions that each stay small (no template expands to itself, the depth
/// limit is not involved), and the same shape well below the budget.
/// NOTE: sizes are kept small on the accepting side on purpose.  `expand` rebuilds (deep-clones)
/// the whole surrounding list once per replaced call, so the time is quadratic in the number of
/// calls in one list: 24,000 calls of a one-atom template (a 3 KiB text, 72,000 produced items)
/// take about a minute in `new_from_str`, 300,000 (10 KiB, still inside the budget) hours.
/// Reported as a suspected defect; the just-over-budget texts below are fast only because the
/// budget check fails before the first rebuild.
fn fam_template_budget(o: &mut Out) {
    let k = o.key();
    let atoms = format!("{k} ").repeat(1000);
    for (n2, n3) in [(8usize, 8usize), (32, 32), (33, 31), (40, 30 + o.r.below(10) as usize)] {
        let t = format!(
            "(deftemplate t1 () {atoms})\n(deftemplate t2 () {})\n(deftemplate t3 () {})\n(defsrc a)\n(deflayer base a)\n(defalias big (multi (t! t3)))\n",
            "(t! t1) ".repeat(n2),
            "(t! t2) ".repeat(n3)
        );
        o.one(&format!("cov:template:budget:{}", n2 * n3), &t, &[]);
    }
    // many calls of a small template in one list (1,000 calls; see the note above)
    let t = format!(
        "(deftemplate t1 () {k})\n(deftemplate t2 () {})\n(deftemplate t3 () {})\n(defsrc a)\n(deflayer base a)\n(defvar big ((t! t3)))\n",
        "(t! t1) ".repeat(100),
        "(t! t2) ".repeat(10)
    );
    o.one("cov:template:many-calls:1000", &t, &[]);
}

// ------------------------------------------------------------------------------------ chords v2
/// cfg/chord.rs `resolves_through_key_position` (l.154-168): a tap-hold whose hold action is a
/// tap-hold (the plain form stores the hold action a second time as timeout action, l.161-164),
/// with a positional action (`_`, `use-defsrc`) at each depth.
fn fam_chords_v2(o: &mut Out) {
    let k = o.key();
    let acts = [
        format!("(tap-hold 100 100 {k} (tap-hold 100 100 b c))"),
        "(tap-hold 100 100 a (tap-hold 100 100 b _))".to_string(),
        "(tap-hold 100 100 a (tap-hold 100 100 _ c))".to_string(),
        "(tap-hold-press-timeout 100 100 a (tap-hold 100 100 b c) (tap-hold 100 100 b use-defsrc))".to_string(),
        "(tap-hold-press-timeout 100 100 a (tap-hold 100 100 b c) (tap-hold 100 100 b c))".to_string(),
        "(tap-hold-release-timeout 100 100 a b (tap-hold 100 100 _ c))".to_string(),
        "(tap-hold 100 100 a (tap-hold 100 100 b (tap-hold 100 100 c use-defsrc)))".to_string(),
        "(one-shot 100 (tap-hold 100 100 a (tap-hold 100 100 b lsft)))".to_string(),
    ];
    for a in &acts {
        let t = format!("(defcfg concurrent-tap-hold yes)\n(defsrc a b c)\n(deflayer base a b c)\n(defchordsv2 (a b) {a} 100 all-released ())\n");
        o.one("cov:chordsv2:nested-tap-hold", &t, &[]);
        let t = format!("(defcfg concurrent-tap-hold yes)\n(defsrc a b c)\n(deflayer base a b c)\n(defalias x {a})\n(defchordsv2 (a b) @x 100 first-release ())\n");
        o.one("cov:chordsv2:nested-tap-hold-alias", &t, &[]);
    }
}

// ------------------------------------------------------------------------------------ zippychord
/// cfg/zippychord.rs `parse_zippy_inner`: every option given twice (l.347-408), the output
/// mapping forms - no-erase with S-/AG-/S-AG- (l.756-768), both shifts (l.736-740), other
/// modifiers (l.742-746), list parameters in single-output (l.477-494), a character mapped twice
/// (l.504-505), a multi-key single-output used as punctuation (l.537-543) - and dictionary files
/// with a repeated input key (l.131), a second follow-up under the same first chord (l.699-700),
/// duplicates and prefixes.
fn fam_zippy(o: &mut Out) {
    let dict = "ab\tx\n";
    let z = |opts: &str| format!("(defsrc a b c)\n(deflayer base a b c)\n(defzippy dict.txt {opts})\n");
    for (name, val) in [
        ("idle-reactivate-time", "100"),
        ("on-first-press-chord-deadline", "100"),
        ("smart-space", "full"),
        ("smart-space-punctuation", "(. ,)"),
        ("output-character-mappings", "(x a)"),
    ] {
        o.one("cov:zippy:option-twice", &z(&format!("{name} {val} {name} {val}")), &inc("dict.txt", dict));
        o.one("cov:zippy:option-once", &z(&format!("{name} {val}")), &inc("dict.txt", dict));
    }
    let mappings: &[&str] = &[
        "(x (no-erase S-a))", "(x (no-erase AG-a))", "(x (no-erase S-AG-a))", "(x (no-erase RS-a))", "(x (no-erase AG-S-a))", "(x S-a y AG-a z S-AG-a)",
        "(x S-RS-a)", "(x (no-erase S-RS-a))", "(x C-a)", "(x (no-erase A-a))", "(x M-S-a)", "(x S-S-a)", "(x AG-RA-a)", "(x S-AG-RS-a)", "(x S-nokey)", "(x (no-erase nokey))",
        "(x (single-output a b))", "(x (single-output (a) b))", "(x (single-output a (b)))", "(x (single-output a (b) c))", "(x (single-output S-a AG-b))", "(x (single-output C-a b))",
        "(x (single-output a C-b))", "(x (no-erase (a)))", "(x (other a))", "(x ((no-erase) a))", "(x a x b)", "(x a \"x\" b)", "(x a y b x c)", "(xy a)", "((x) a)", "(\"\" a)", "(é S-e)",
    ];
    for m in mappings {
        let d = if m.contains('é') { "ab\txyz\nac\téX\n" } else { "ab\txyz\nac\tXy\n" };
        o.one("cov:zippy:output-mapping", &z(&format!("output-character-mappings {m}")), &inc("dict.txt", d));
    }
    for (m, p) in [
        ("(x (single-output a b))", "(x)"),
        ("(x (single-output a))", "(x)"),
        ("(x (no-erase a))", "(x .)"),
        ("(x S-a)", "(x x)"),
        ("(x a)", "(y)"),
        ("(x a)", "((x))"),
        ("(x a)", "(xx)"),
    ] {
        o.one("cov:zippy:punctuation-of-mapping", &z(&format!("output-character-mappings {m} smart-space-punctuation {p}")), &inc("dict.txt", dict));
        o.one("cov:zippy:punctuation-before-mapping", &z(&format!("smart-space-punctuation {p} output-character-mappings {m}")), &inc("dict.txt", dict));
    }
    let files: &[&str] = &[
        "aa\tx\n", "aab\tx\nab\ty\n", "a a\tx\n", "a b\tx\na c\ty\n", "a b\tx\na c\ty\na d\tz\n", "a\tx\na b\ty\na c\tz\n", "a b c\tx\na b d\ty\na b\tz\n", "a b\tx\na\ty\n",
        "a b\tx\na b\ty\n", "ab\tx\nba\ty\n", " a\tx\n a\ty\n", " a b\tx\n a c\ty\n", "a  b\tx\n", "a \tx\n", " \tx\n", "  \tx\n", "ab cd\tx\ncd ab\ty\nab cd ef\tz\n", "ab\tx\nabc\ty\nbc\tz\n",
        "ab\tA b\n", "ab\t \n", "ab\té\n", "ab\tx\ty\n", "ab\tx\r\ncd\ty\r\n",
    ];
    for f in files {
        o.one("cov:zippy:dictionary", &z(""), &inc("dict.txt", f));
        o.one("cov:zippy:dictionary+options", &z("smart-space add-space-only output-character-mappings (x (no-erase S-a) y (single-output a b))"), &inc("dict.txt", f));
    }
}

/// every option name `parse_defcfg` matches on - read from the source, so that deprecated spellings
/// and newly added options are included - with boundary values, in a configuration that USES the
/// value (chords v2, sequences, dynamic macros, overrides, mouse movement present): a value the
/// option parser lets through reaches its consumer while the configuration is built
fn fam_defcfg_consumers(o: &mut Out) {
    let src = std::fs::read_to_string(format!("{}/parser/src/cfg/defcfg.rs", crate::c03::repo())).unwrap_or_default();
    let mut names: Vec<String> = vec![];
    for line in src.lines() {
        let t = line.trim();
        if !t.starts_with('"') || !(t.contains("=>") || t.ends_with('|')) {
            continue;
        }
        for piece in t.split('|') {
            let q = piece.trim();
            if let Some(rest) = q.strip_prefix('"') {
                if let Some(end) = rest.find('"') {
                    let name = &rest[..end];
                    if name.len() > 3 && name.contains('-') && name.chars().all(|c| c.is_ascii_lowercase() || c.is_ascii_digit() || c == '-') && !names.iter().any(|n| n == name) {
                        names.push(name.to_string());
                    }
                }
            }
        }
    }
    let body = "(defsrc a b c d e)\n(deflayer base a b sldr (dynamic-macro-record 1) (movemouse-accel-up 1 100 1 5))\n(defvirtualkeys v1 z)\n(defseq v1 (a b))\n(defchordsv2 (a b) c 30 all-released ())\n(defoverrides (lsft a) (b))\n";
    for name in &names {
        for v in ["0", "1", "4", "5", "65535", "yes", "no"] {
            let pre = if name == "concurrent-tap-hold" { String::new() } else { "concurrent-tap-hold yes ".to_string() };
            let text = format!("(defcfg {pre}{name} {v})\n{body}");
            o.lines.push(case_line('s', "cov:defcfg-consumer", &text, &[]));
        }
    }
}

pub fn gen_extra(tier: &str, seed: u64) -> Vec<String> {
    let mut r = Rng::new(seed ^ 0xC03_C0F);
    let mut o = Out { r: &mut r, lines: vec![] };
    // the thorough tier repeats the families with further PRNG choices (other keys, other counts
    // beyond the limits, other load modes)
    let rounds = if tier == "thorough" { 6 } else { 1 };
    for _ in 0..rounds {
        fam_include(&mut o);
        fam_environment(&mut o);
        fam_actions(&mut o);
        fam_capacities(&mut o);
        fam_sequences(&mut o);
        fam_switch(&mut o);
        fam_defcfg(&mut o);
        fam_defcfg_consumers(&mut o);
        fam_template_budget(&mut o);
        fam_chords_v2(&mut o);
        fam_zippy(&mut o);
    }
    o.lines.sort();
    o.lines.dedup();
    o.lines
}
