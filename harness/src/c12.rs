//! C12: sequences.  Generates defseq tables (plain keys, modifier chords and groups, O-(...) groups)
//! and typing histories, renders them as kanata configuration text, and runs the REAL code:
//!   Q  the `Trie` wrapper's three queries on random key sets
//!   T  the parser (`cfg::new_from_str`): accept/reject class and the stored (key list -> vkey) pairs,
//!      read from the `Debug` rendering of `cfg.sequences` (public API only)
//!   R  `Kanata::new_from_str` + `handle_input_event` + `tick_ms(1)`: OS events per tick from
//!      `kbd_out.outputs.events`, virtual-key states from `layout.b().states`, final `sequence_state`
//! Line protocol: see lean/KVerif/Drv/C12.lean.
use crate::rng::Rng;
use kanata_keyberon::key_code::KeyCode;
use kanata_keyberon::layout::State;
use kanata_parser::cfg;
use kanata_parser::keys::OsCode;
use kanata_parser::trie::{GetOrDescendentExistsResult, Trie};
use kanata_state_machine::oskbd::{KeyEvent, KeyValue};
use kanata_state_machine::Kanata;

// ---------------------------------------------------------------- key universe (fixed conventions)
const TYPED: [(u16, &str); 23] = [
    (30, "a"), (48, "b"), (46, "c"), (32, "d"), (18, "e"), (33, "f"), (34, "g"), (35, "h"), (23, "i"),
    (36, "j"), (45, "x"), (21, "y"), (44, "z"), (57, "spc"), (42, "lsft"), (54, "rsft"), (29, "lctl"),
    (97, "rctl"), (56, "lalt"), (100, "ralt"), (125, "lmet"), (126, "rmet"),
    // a reserved no-op key (never sent to the OS): only the (R4) family types it
    (676, "nop0"),
];
const PLAIN: [u16; 14] = [30, 48, 46, 32, 18, 33, 34, 35, 23, 36, 45, 21, 44, 57];
const MODS: [(u16, &str); 9] = [
    (42, "S-"), (54, "RS-"), (29, "C-"), (97, "RC-"), (56, "A-"), (100, "RA-"), (125, "M-"), (126, "RM-"),
    (251, "O-"),
];
const K_LEADER: u16 = 59;
const K_LEADER2: u16 = 60;
const K_CANCEL: u16 = 61;
const K_NOERASE: u16 = 62;
const NVK: usize = 10;
const VK_OUT_NAMES: [&str; NVK] = ["1", "2", "3", "4", "5", "6", "7", "8", "9", "0"];
const MODE_NAMES: [&str; 3] = ["hidden-suppressed", "hidden-delay-type", "visible-backspaced"];

fn key_name(code: u16) -> &'static str {
    TYPED.iter().find(|(c, _)| *c == code).map(|(_, n)| *n).unwrap_or_else(|| panic!("harness: key {code} not in universe"))
}
fn mod_name(code: u16) -> &'static str {
    MODS.iter().find(|(c, _)| *c == code).map(|(_, n)| *n).unwrap_or_else(|| panic!("harness: modifier {code}"))
}

// ---------------------------------------------------------------- key-list items
#[derive(Clone, Debug)]
pub enum Item {
    Key(u16),
    Chord(Vec<u16>, u16),
    Held(Vec<u16>, Vec<Item>),
    Sub(Vec<Item>),
}

fn tok_item(i: &Item, out: &mut Vec<String>) {
    match i {
        Item::Key(k) => out.push(format!("k {k}")),
        Item::Chord(m, k) => {
            out.push(format!("c {}", m.len()));
            out.extend(m.iter().map(|x| x.to_string()));
            out.push(k.to_string());
        }
        Item::Held(m, b) => {
            out.push(format!("h {}", m.len()));
            out.extend(m.iter().map(|x| x.to_string()));
            out.push(b.len().to_string());
            b.iter().for_each(|x| tok_item(x, out));
        }
        Item::Sub(b) => {
            out.push(format!("s {}", b.len()));
            b.iter().for_each(|x| tok_item(x, out));
        }
    }
}

fn text_item(i: &Item) -> String {
    match i {
        Item::Key(k) => key_name(*k).to_string(),
        Item::Chord(m, k) => format!("{}{}", m.iter().map(|x| mod_name(*x)).collect::<String>(), key_name(*k)),
        Item::Held(m, b) => format!(
            "{}({})",
            m.iter().map(|x| mod_name(*x)).collect::<String>(),
            b.iter().map(text_item).collect::<Vec<_>>().join(" ")
        ),
        Item::Sub(b) => format!("({})", b.iter().map(text_item).collect::<Vec<_>>().join(" ")),
    }
}

type Table = Vec<(usize, Vec<Item>)>;

fn tok_table(t: &Table) -> String {
    let mut out = vec![t.len().to_string()];
    for (vk, items) in t {
        out.push(vk.to_string());
        out.push(items.len().to_string());
        items.iter().for_each(|i| tok_item(i, &mut out));
    }
    out.join(" ")
}

fn text_table(t: &Table) -> String {
    let mut s = String::from("(defvirtualkeys");
    for (j, n) in VK_OUT_NAMES.iter().enumerate() {
        s.push_str(&format!(" v{j} {n}"));
    }
    s.push_str(")\n(defseq");
    for (vk, items) in t {
        s.push_str(&format!(" v{vk} ({})", items.iter().map(text_item).collect::<Vec<_>>().join(" ")));
    }
    s.push_str(")\n");
    s
}

// ---------------------------------------------------------------- histories
#[derive(Clone, Copy, Debug, PartialEq)]
pub enum Ev {
    P(u16),
    R(u16),
    T(u32),
    /// an OS key-repeat event for a held key (family P only)
    Rep(u16),
}

fn tok_hist(h: &[Ev]) -> String {
    let mut out = vec![h.len().to_string()];
    for e in h {
        out.push(match e {
            Ev::P(c) => format!("p {c}"),
            Ev::R(c) => format!("r {c}"),
            Ev::T(n) => format!("t {n}"),
            Ev::Rep(c) => format!("rp {c}"),
        });
    }
    out.join(" ")
}

#[derive(Clone, Copy)]
struct Opts {
    mode: u8,
    timeout: u16,
    always_on: bool,
    modcancel: bool,
    lmode: u8,
    lt: u16,
}

fn r_line(o: &Opts, t: &Table, h: &[Ev]) -> String {
    format!(
        "C12 R {} {} {} {} {} {} {} H {}",
        o.mode, o.timeout, o.always_on as u8, o.modcancel as u8, o.lmode, o.lt, tok_table(t), tok_hist(h)
    )
}

/// How a user types an item: modifiers are held around the body; members of an O-(...) group are
/// pressed in the given order and released afterwards (overlapping), `gap` ticks after every event.
fn type_item(i: &Item, gap: u32, perm: &mut dyn FnMut(usize) -> Vec<usize>, h: &mut Vec<Ev>) {
    match i {
        Item::Key(k) => {
            h.extend([Ev::P(*k), Ev::T(gap), Ev::R(*k), Ev::T(gap)]);
        }
        Item::Chord(m, k) => {
            for x in m {
                h.extend([Ev::P(*x), Ev::T(gap)]);
            }
            h.extend([Ev::P(*k), Ev::T(gap), Ev::R(*k), Ev::T(gap)]);
            for x in m.iter().rev() {
                h.extend([Ev::R(*x), Ev::T(gap)]);
            }
        }
        Item::Held(m, b) if m == &vec![251] => {
            // overlap group: flatten the member keys, press in a permuted order, then release
            let mut ks = vec![];
            flat_keys(b, &mut ks);
            let order = perm(ks.len());
            for &ix in &order {
                h.extend([Ev::P(ks[ix]), Ev::T(gap)]);
            }
            for &ix in &order {
                h.extend([Ev::R(ks[ix]), Ev::T(gap)]);
            }
        }
        Item::Held(m, b) => {
            for x in m {
                h.extend([Ev::P(*x), Ev::T(gap)]);
            }
            for x in b {
                type_item(x, gap, perm, h);
            }
            for x in m {
                h.extend([Ev::R(*x), Ev::T(gap)]);
            }
        }
        Item::Sub(b) => {
            for x in b {
                type_item(x, gap, perm, h);
            }
        }
    }
}

fn flat_keys(b: &[Item], out: &mut Vec<u16>) {
    for i in b {
        match i {
            Item::Key(k) => out.push(*k),
            Item::Chord(_, k) => out.push(*k),
            Item::Held(_, b) | Item::Sub(b) => flat_keys(b, out),
        }
    }
}

fn leader_tap(gap: u32) -> Vec<Ev> {
    vec![Ev::P(K_LEADER), Ev::T(gap), Ev::R(K_LEADER), Ev::T(gap)]
}

// ---------------------------------------------------------------- generators
fn pick_plain(r: &mut Rng, n: usize) -> u16 {
    PLAIN[r.below(n as u64) as usize]
}

fn gen_plain_seq(r: &mut Rng, alpha: usize, maxlen: u64) -> Vec<Item> {
    let n = r.range(1, maxlen);
    (0..n).map(|_| Item::Key(pick_plain(r, alpha))).collect()
}

fn distinct_keys(r: &mut Rng, n: usize, alpha: usize) -> Vec<u16> {
    let mut v: Vec<u16> = PLAIN[..alpha].to_vec();
    for i in (1..v.len()).rev() {
        let j = r.below(i as u64 + 1) as usize;
        v.swap(i, j);
    }
    v.truncate(n);
    v
}

fn gen_item(r: &mut Rng, alpha: usize, depth: u32, wild: bool) -> Item {
    let real_mods: [u16; 8] = [42, 54, 29, 97, 56, 100, 125, 126];
    match r.below(if depth == 0 { 4 } else { 9 }) {
        0..=2 => Item::Key(pick_plain(r, alpha)),
        3 => {
            let nm = r.range(1, 2) as usize;
            let mut m = vec![];
            while m.len() < nm {
                let x = *r.pick(&real_mods);
                // the parser rejects a repeated modifier name; left/right of one kind are distinct names
                if !m.contains(&x) {
                    m.push(x);
                }
            }
            Item::Chord(m, if wild && r.chance(1, 6) { *r.pick(&real_mods) } else { pick_plain(r, alpha) })
        }
        4 | 5 => {
            // O-( ... ) group
            let n = if wild && r.chance(1, 5) {
                *r.pick(&[0usize, 1, 7])
            } else {
                let hi = if r.chance(1, 6) { 6 } else { 3 };
                r.range(2, hi) as usize
            };
            let ks = if wild && r.chance(1, 6) {
                (0..n).map(|_| pick_plain(r, alpha)).collect::<Vec<_>>()
            } else {
                distinct_keys(r, n.min(PLAIN.len()), PLAIN.len().min(alpha.max(n)))
            };
            let mut body: Vec<Item> = ks.into_iter().map(Item::Key).collect();
            if wild && r.chance(1, 8) && !body.is_empty() {
                let ix = r.below(body.len() as u64) as usize;
                body[ix] = if r.chance(1, 2) {
                    Item::Chord(vec![42], pick_plain(r, alpha))
                } else {
                    Item::Key(*r.pick(&real_mods))
                };
            }
            Item::Held(vec![251], body)
        }
        6 | 7 => {
            let nm = r.range(1, 2) as usize;
            let mut m = vec![];
            while m.len() < nm {
                let x = *r.pick(&real_mods);
                if !m.contains(&x) {
                    m.push(x);
                }
            }
            if wild && r.chance(1, 10) {
                m.push(251);
            }
            let n = if wild && r.chance(1, 8) { 0 } else { r.range(1, 3) };
            Item::Held(m, (0..n).map(|_| gen_item(r, alpha, depth - 1, wild)).collect())
        }
        _ => {
            let n = if wild && r.chance(1, 8) { 0 } else { r.range(1, 2) };
            Item::Sub((0..n).map(|_| gen_item(r, alpha, depth - 1, wild)).collect())
        }
    }
}

fn gen_table(r: &mut Rng, kind: u32) -> Table {
    // kind 0: plain; 1: plain + chords/groups; 2: with O- groups; 3: wild (rejections, crashes)
    let nent = r.range(1, if kind == 0 { 5 } else { 4 }) as usize;
    let alpha = r.range(2, 5) as usize;
    let mut t = vec![];
    for _ in 0..nent {
        let vk = r.below(NVK as u64) as usize;
        let items = match kind {
            0 => gen_plain_seq(r, alpha, 4),
            _ => {
                let n = r.range(1, 3);
                (0..n)
                    .map(|_| {
                        if kind == 1 {
                            loop {
                                let i = gen_item(r, alpha, 1, false);
                                if !matches!(&i, Item::Held(m, _) if m.contains(&251)) {
                                    break i;
                                }
                            }
                        } else {
                            gen_item(r, alpha, 2, kind == 3)
                        }
                    })
                    .collect()
            }
        };
        t.push((vk, items));
    }
    t
}

/// number of stored orderings (product of factorials of the O- group sizes), to bound line lengths
fn orderings_count(t: &Table) -> u64 {
    fn fact(n: u64) -> u64 {
        (1..=n).product::<u64>().max(1)
    }
    fn item(i: &Item) -> u64 {
        match i {
            Item::Held(m, b) if m.contains(&251) => {
                let mut ks = vec![];
                flat_keys(b, &mut ks);
                fact(ks.len().min(8) as u64)
            }
            Item::Held(_, b) | Item::Sub(b) => b.iter().map(item).product(),
            _ => 1,
        }
    }
    t.iter().map(|(_, is)| is.iter().map(item).product::<u64>()).sum()
}

fn rand_perm(r: &mut Rng, n: usize) -> Vec<usize> {
    let mut v: Vec<usize> = (0..n).collect();
    for i in (1..n).rev() {
        let j = r.below(i as u64 + 1) as usize;
        v.swap(i, j);
    }
    v
}

fn all_perms(n: usize) -> Vec<Vec<usize>> {
    if n == 0 {
        return vec![vec![]];
    }
    let mut out = vec![];
    for p in all_perms(n - 1) {
        for pos in 0..=p.len() {
            let mut q = p.clone();
            q.insert(pos, n - 1);
            out.push(q);
        }
    }
    out
}

fn non_matching_key(t: &Table) -> u16 {
    let mut used = vec![];
    for (_, is) in t {
        flat_keys(is, &mut used);
    }
    *PLAIN.iter().rev().find(|k| !used.contains(k)).unwrap_or(&57)
}

fn opts_grid(r: &mut Rng, thorough: bool) -> Vec<Opts> {
    let mut v = vec![];
    let t = *r.pick(&[8u16, 10, 13, 25]);
    for mode in 0..3u8 {
        for ao in [false, true] {
            v.push(Opts { mode, timeout: t, always_on: ao, modcancel: true, lmode: (mode + 1) % 3, lt: t + 3 });
        }
    }
    // sequence-backtrack-modcancel no: all three modes in the thorough tier, one drawn mode otherwise
    if thorough {
        for mode in 0..3u8 {
            v.push(Opts { mode, timeout: t, always_on: false, modcancel: false, lmode: mode, lt: t });
        }
    } else {
        let mode = r.below(3) as u8;
        v.push(Opts { mode, timeout: t, always_on: r.chance(1, 2), modcancel: false, lmode: mode, lt: t });
    }
    v
}

/// structured histories for one accepted table
fn histories_for(r: &mut Rng, t: &Table, o: &Opts, thorough: bool, lines: &mut Vec<String>) {
    let g: u32 = 3;
    let big = (o.timeout as u32) * 2 + 10;
    let start = |h: &mut Vec<Ev>| {
        if !o.always_on {
            h.extend(leader_tap(g));
        }
    };
    let nm = non_matching_key(t);
    for (_, items) in t {
        // F1: the sequence, each O- group in every order (sampled when there are many)
        let mut sizes = vec![];
        count_groups(items, &mut sizes);
        let total: usize = sizes.iter().map(|n| (1..=*n).product::<usize>()).product::<usize>().max(1);
        let choices: Vec<Vec<Vec<usize>>> = if total <= if thorough { 24 } else { 6 } {
            // full cartesian product of group permutations
            let mut acc: Vec<Vec<Vec<usize>>> = vec![vec![]];
            for n in &sizes {
                let mut next = vec![];
                for a in &acc {
                    for p in all_perms(*n) {
                        let mut b = a.clone();
                        b.push(p);
                        next.push(b);
                    }
                }
                acc = next;
            }
            acc
        } else {
            (0..if thorough { 8 } else { 3 }).map(|_| sizes.iter().map(|n| rand_perm(r, *n)).collect()).collect()
        };
        for ch in choices {
            let mut h = vec![];
            start(&mut h);
            let mut gi = 0usize;
            let mut pf = |_n: usize| {
                let p = ch[gi].clone();
                gi += 1;
                p
            };
            for i in items {
                type_item(i, g, &mut pf, &mut h);
            }
            h.push(Ev::T(big));
            lines.push(r_line(o, t, &h));
        }
        // typed keys of this sequence in plain tap order (what F2/F3 cut up)
        let mut full = vec![];
        {
            let mut pf = |n: usize| (0..n).collect::<Vec<_>>();
            for i in items {
                type_item(i, g, &mut pf, &mut full);
            }
        }
        let is_plain = items.iter().all(|i| matches!(i, Item::Key(_)));
        if is_plain {
            let n = items.len();
            // F2: every proper prefix followed by a non-matching key (and then the rest)
            for cut in 0..n {
                let mut h = vec![];
                start(&mut h);
                h.extend_from_slice(&full[..cut * 4]);
                h.extend([Ev::P(nm), Ev::T(g), Ev::R(nm), Ev::T(g)]);
                if r.chance(1, 2) {
                    h.extend_from_slice(&full[cut * 4..]);
                }
                h.push(Ev::T(big));
                lines.push(r_line(o, t, &h));
            }
            // F3: a gap of T-1 / T / T+1 ticks between two processed presses, at every position
            for cut in 0..n {
                for d in [-1i32, 0, 1] {
                    let gap = (o.timeout as i32 + d) as u32;
                    let mut h = vec![];
                    start(&mut h);
                    h.extend_from_slice(&full[..cut * 4]);
                    // stretch the last waiting period so that the next press is processed `gap` ticks
                    // after the previous one (leader or key): previous gaps are g + g
                    if let Some(Ev::T(last)) = h.last_mut() {
                        *last = gap - g;
                    } else {
                        h.push(Ev::T(gap)); // always-on, nothing typed yet: just idle time
                    }
                    h.extend_from_slice(&full[cut * 4..]);
                    h.push(Ev::T(big));
                    lines.push(r_line(o, t, &h));
                }
            }
            // pending prefix then idle for T-1 / T / T+1, then one more key
            for d in [-1i32, 0, 1] {
                let gap = (o.timeout as i32 + d) as u32;
                let mut h = vec![];
                start(&mut h);
                h.extend_from_slice(&full[..(n - 1) * 4]);
                if let Some(Ev::T(last)) = h.last_mut() {
                    *last = gap - g;
                }
                h.extend([Ev::P(nm), Ev::T(g), Ev::R(nm), Ev::T(g)]);
                lines.push(r_line(o, t, &h));
            }
        } else if thorough || r.chance(1, 2) {
            // chorded / overlap sequences: cut the typing plan after a random prefix, add a stray key
            let cut = r.below(full.len() as u64 + 1) as usize;
            let mut h = vec![];
            start(&mut h);
            h.extend_from_slice(&full[..cut]);
            h.extend([Ev::P(nm), Ev::T(g), Ev::R(nm), Ev::T(g)]);
            h.extend_from_slice(&full[cut..]);
            h.push(Ev::T(big));
            lines.push(r_line(o, t, &h));
            // members of groups typed one after the other (not overlapping)
            let mut h = vec![];
            start(&mut h);
            let mut ks = vec![];
            flat_keys(items, &mut ks);
            for k in ks {
                h.extend([Ev::P(k), Ev::T(g), Ev::R(k), Ev::T(g)]);
            }
            h.push(Ev::T(big));
            lines.push(r_line(o, t, &h));
        }
    }
}

fn count_groups(items: &[Item], out: &mut Vec<usize>) {
    for i in items {
        match i {
            Item::Held(m, b) if m == &vec![251] => {
                let mut ks = vec![];
                flat_keys(b, &mut ks);
                out.push(ks.len());
            }
            Item::Held(_, b) | Item::Sub(b) => count_groups(b, out),
            _ => {}
        }
    }
}

/// undisciplined history: anything goes
fn random_history(r: &mut Rng, t: &Table, o: &Opts) -> Vec<Ev> {
    let mut used = vec![];
    for (_, is) in t {
        flat_keys(is, &mut used);
    }
    used.push(non_matching_key(t));
    used.extend([42u16, 54, 29, 100]);
    let mut held: Vec<u16> = vec![];
    let mut h = vec![];
    let n = r.range(4, 40);
    for _ in 0..n {
        match r.below(20) {
            0 => h.push(Ev::P(K_LEADER)),
            1 => h.push(Ev::R(K_LEADER)),
            2 => {
                h.push(Ev::P(K_LEADER2));
                h.push(Ev::T(1));
                h.push(Ev::R(K_LEADER2));
            }
            3 => {
                let k = *r.pick(&[K_CANCEL, K_NOERASE]);
                h.push(Ev::P(k));
                h.push(Ev::T(r.range(1, 2) as u32));
                h.push(Ev::R(k));
            }
            4..=6 => h.push(Ev::T(match r.below(6) {
                0 => 0,
                1 => o.timeout as u32 - 1,
                2 => o.timeout as u32,
                3 => o.timeout as u32 + 1,
                _ => r.range(1, 4) as u32,
            })),
            7..=13 => {
                let k = *r.pick(&used);
                if !held.contains(&k) {
                    held.push(k);
                }
                h.push(Ev::P(k));
                if r.chance(2, 3) {
                    h.push(Ev::T(r.range(1, 3) as u32));
                }
            }
            _ => {
                if !held.is_empty() {
                    let ix = r.below(held.len() as u64) as usize;
                    let k = held.remove(ix);
                    h.push(Ev::R(k));
                    if r.chance(2, 3) {
                        h.push(Ev::T(r.range(1, 3) as u32));
                    }
                }
            }
        }
    }
    for k in held {
        h.push(Ev::R(k));
        h.push(Ev::T(1));
    }
    h.push(Ev::T(o.timeout as u32 * 2 + 10));
    h
}

fn q_line(r: &mut Rng) -> String {
    let alpha: [u16; 5] = [1, 2, 3, 0x400, 0x401];
    let key = |r: &mut Rng, allow_empty: bool| -> Vec<u16> {
        let n = if allow_empty && r.chance(1, 10) { 0 } else { r.range(1, 4) };
        (0..n)
            .map(|_| {
                let hi = if r.chance(1, 2) { 3 } else { 5 };
                *r.pick(&alpha[..hi])
            })
            .collect()
    };
    let fmt = |k: &Vec<u16>| format!("{} {}", k.len(), k.iter().map(|x| x.to_string()).collect::<Vec<_>>().join(" ")).trim().to_string();
    let nk = r.below(7);
    let keys: Vec<Vec<u16>> = (0..nk).map(|_| key(r, false)).collect();
    let nq = r.range(1, 6);
    let mut qs: Vec<Vec<u16>> = (0..nq).map(|_| key(r, true)).collect();
    if let Some(k) = keys.first() {
        qs.push(k.clone());
        qs.push(k[..k.len() - 1].to_vec());
        let mut k2 = k.clone();
        k2.push(1);
        qs.push(k2);
    }
    format!(
        "C12 Q {} {} {} {}",
        keys.len(),
        keys.iter().map(fmt).collect::<Vec<_>>().join(" "),
        qs.len(),
        qs.iter().map(fmt).collect::<Vec<_>>().join(" ")
    )
    .split_whitespace()
    .collect::<Vec<_>>()
    .join(" ")
}

pub fn gen(tier: &str, seed: u64) -> Vec<String> {
    let mut r = Rng::new(seed ^ 0xC12);
    let thorough = tier == "thorough";
    let mut lines = vec![];
    // (Q) the trie wrapper on random key sets
    for _ in 0..if thorough { 4000 } else { 400 } {
        lines.push(q_line(&mut r));
    }
    // (T1) exhaustive: all ordered pairs of plain sequences of length 1..=3 over two keys
    let mut seqs: Vec<Vec<u16>> = vec![];
    for n in 1..=3usize {
        for m in 0..(1u32 << n) {
            seqs.push((0..n).map(|i| if m & (1 << i) != 0 { 48 } else { 30 }).collect());
        }
    }
    for a in &seqs {
        for b in &seqs {
            let t: Table = vec![
                (0, a.iter().map(|k| Item::Key(*k)).collect()),
                (1, b.iter().map(|k| Item::Key(*k)).collect()),
            ];
            lines.push(format!("C12 T {}", tok_table(&t)));
        }
    }
    // (T2) one O- group of every size 0..=7, alone and against a plain sequence in every order of 2 and 3
    for n in 0..=7usize {
        let body: Vec<Item> = PLAIN[..n].iter().map(|k| Item::Key(*k)).collect();
        lines.push(format!("C12 T {}", tok_table(&vec![(0, vec![Item::Held(vec![251], body.clone())])])));
        lines.push(format!("C12 T {}", tok_table(&vec![(0, vec![Item::Key(57), Item::Held(vec![251], body), Item::Key(57)])])));
    }
    // (T3) fixed edge cases: modifier groups with an empty body, O- combined with modifiers, duplicates in a group
    let edge: Vec<Table> = vec![
        vec![(0, vec![Item::Held(vec![29, 42], vec![])])],
        vec![(0, vec![Item::Held(vec![42], vec![])])],
        vec![(0, vec![Item::Held(vec![42, 29, 56], vec![])])],
        vec![(0, vec![Item::Held(vec![251], vec![Item::Key(30), Item::Key(30)])])],
        vec![(0, vec![Item::Held(vec![251], vec![Item::Chord(vec![42], 30), Item::Key(48)])])],
        vec![(0, vec![Item::Held(vec![42], vec![Item::Held(vec![251], vec![Item::Key(30), Item::Key(48)])])])],
        vec![(0, vec![Item::Held(vec![251], vec![Item::Held(vec![251], vec![Item::Key(30), Item::Key(48)]), Item::Key(46)])])],
        vec![(0, vec![Item::Held(vec![251], vec![Item::Key(30), Item::Key(42)])])],
        vec![(0, vec![Item::Chord(vec![42], 42)])],
        vec![(0, vec![])],
        vec![(0, vec![Item::Key(30)]), (1, vec![])],
        vec![(0, vec![Item::Sub(vec![])])],
        vec![(0, vec![Item::Key(30), Item::Held(vec![42], vec![Item::Sub(vec![])])])],
        vec![(0, vec![Item::Sub(vec![Item::Sub(vec![Item::Key(30)])])])],
        vec![(0, vec![Item::Key(30), Item::Key(48)]), (1, vec![Item::Held(vec![251], vec![Item::Key(30), Item::Key(48)])])],
        vec![(0, vec![Item::Held(vec![251], vec![Item::Key(30), Item::Key(48)])]), (1, vec![Item::Held(vec![251], vec![Item::Key(48), Item::Key(30)])])],
        vec![(0, vec![Item::Held(vec![42], vec![Item::Key(30), Item::Key(48)])]), (1, vec![Item::Chord(vec![42], 30), Item::Chord(vec![42], 48)])],
    ];
    for t in &edge {
        lines.push(format!("C12 T {}", tok_table(t)));
    }
    // (T4) random tables of every kind
    for i in 0..if thorough { 6000 } else { 700 } {
        let t = gen_table(&mut r, i % 4);
        if orderings_count(&t) <= 800 {
            lines.push(format!("C12 T {}", tok_table(&t)));
        }
    }
    // (R) typing histories on generated tables
    let n_tables = if thorough { 3000 } else { 300 };
    for i in 0..n_tables {
        let kind = [0, 0, 1, 2, 2][i % 5];
        // histories are only interesting on tables the parser accepts: draw until one is accepted
        // (the accept/reject decision itself is compared in the T cases)
        let mut t = gen_table(&mut r, kind);
        let mut tries = 0;
        while tries < 60
            && (orderings_count(&t) > 130
                || cfg::new_from_str(&format!("(defsrc a)\n(deflayer base a)\n{}", text_table(&t)), Default::default()).is_err())
        {
            t = gen_table(&mut r, kind);
            tries += 1;
        }
        if tries == 60 {
            continue;
        }
        let og = opts_grid(&mut r, thorough);
        for o in og {
            histories_for(&mut r, &t, &o, thorough, &mut lines);
            for _ in 0..if thorough { 6 } else { 2 } {
                let h = random_history(&mut r, &t, &o);
                lines.push(r_line(&o, &t, &h));
            }
        }
    }
    // (R2) the tables of kanata's own overlap tests, every entry, every order
    let ov = |a: u16, b: u16| Item::Held(vec![251], vec![Item::Key(a), Item::Key(b)]);
    let t_overlap: Table = vec![
        (0, vec![ov(30, 48)]),
        (1, vec![Item::Key(30), Item::Key(48)]),
        (2, vec![ov(46, 32), Item::Key(18)]),
        (3, vec![Item::Key(46), Item::Key(32), Item::Key(18)]),
        (4, vec![ov(46, 32), ov(33, 34)]),
        (5, vec![ov(46, 32), Item::Key(33), Item::Key(34)]),
        (6, vec![Item::Key(46), Item::Key(32), ov(33, 34)]),
    ];
    let og = opts_grid(&mut r, true);
    for o in og {
        histories_for(&mut r, &t_overlap, &o, true, &mut lines);
    }
    // (R3) completion of an overlap group by RELEASING its keys (the all-keys-released check of
    // handle_keystate_changes finding a value: `HasValue => do_successful_sequence_termination(..,
    // Overlap)`): this needs the plain reading of the typed keys to stay a proper prefix of another
    // sequence, so that the press logic neither completes nor abandons - O-(a b) next to (a b c).
    // And a second overlap group begun while the first is still held (do_sequence_press_logic:
    // "try ending the overlapping and push overlapping seq again" succeeding) - (O-(c d) O-(f g)),
    // (O-(c d) f) typed without letting go. Every short history over the keys involved.
    {
        fn all_hists(keys: &[u16], n: usize, gap: u32, down: &mut Vec<u16>, cur: &mut Vec<Ev>, out: &mut Vec<Vec<Ev>>) {
            if n == 0 {
                let mut h = cur.clone();
                for k in down.iter().rev() {
                    h.extend([Ev::R(*k), Ev::T(gap)]);
                }
                out.push(h);
                return;
            }
            for k in keys {
                if let Some(pos) = down.iter().position(|x| x == k) {
                    down.remove(pos);
                    cur.extend([Ev::R(*k), Ev::T(gap)]);
                    all_hists(keys, n - 1, gap, down, cur, out);
                    cur.truncate(cur.len() - 2);
                    down.insert(pos, *k);
                } else {
                    down.push(*k);
                    cur.extend([Ev::P(*k), Ev::T(gap)]);
                    all_hists(keys, n - 1, gap, down, cur, out);
                    cur.truncate(cur.len() - 2);
                    down.pop();
                }
            }
        }
        let t_rel: Table = vec![(0, vec![ov(30, 48)]), (1, vec![Item::Key(30), Item::Key(48), Item::Key(46)])];
        let t_two: Table = vec![
            (0, vec![ov(46, 32), ov(33, 34)]),
            (1, vec![ov(46, 32), Item::Key(33)]),
            (2, vec![Item::Key(46), Item::Key(32), Item::Key(33), Item::Key(33)]),
        ];
        let t_mod: Table = vec![(0, vec![ov(46, 32), Item::Key(33)])];
        for (t, keys, lens) in [(&t_rel, vec![30u16, 48, 46], vec![2usize, 3, 4]), (&t_two, vec![46u16, 32, 33, 34], vec![3usize, 4])] {
            for mode in 0..3u8 {
                for ao in [false, true] {
                    if ao && mode != 0 && !thorough {
                        continue;
                    }
                    let o = Opts { mode, timeout: 20, always_on: ao, modcancel: mode != 1, lmode: mode, lt: 20 };
                    // a modifier held since before the leader key: every typed key carries its bit in
                    // the plain reading, which is then invalid, while the overlap reading (bits
                    // stripped) goes on - with sequence-backtrack-modcancel no the plain reading is
                    // refilled from an overlap reading that ends in an unmodified key
                    if !ao && keys.len() == 4 {
                        let o2 = Opts { modcancel: mode == 2, ..o };
                        for m in [42u16, 100] {
                            let mut hs = vec![];
                            all_hists(&keys[..3], 3, 2, &mut vec![], &mut vec![], &mut hs);
                            for h in hs {
                                let mut h2 = vec![Ev::P(m), Ev::T(2)];
                                h2.extend(leader_tap(2));
                                h2.extend(h);
                                h2.extend([Ev::R(m), Ev::T(60)]);
                                lines.push(r_line(&o2, t, &h2));
                                // the same with (O-(c d) f) alone, so that f has no overlap reading
                                lines.push(r_line(&o2, &t_mod, &h2));
                            }
                        }
                    }
                    for n in &lens {
                        let mut hs = vec![];
                        all_hists(&keys, *n, 2, &mut vec![], &mut vec![], &mut hs);
                        for mut h in hs {
                            if !ao {
                                let mut h2 = leader_tap(2);
                                h2.append(&mut h);
                                h = h2;
                            }
                            h.push(Ev::T(60));
                            lines.push(r_line(&o, t, &h));
                        }
                    }
                }
            }
        }
    }
    // (R4) a reserved no-op key (nop0, inside the output range kanata never sends) as a member of
    // sequences: it is pushed into the sequence like any key, its press is not sent in
    // visible-backspaced mode and no backspace is typed for it on completion
    // (do_successful_sequence_termination: the KEY_IGNORE_MIN..=KEY_IGNORE_MAX arm); on a timeout in
    // hidden-delay-type mode cancel_sequence replays it through press_key, which drops it
    {
        let nop = 676u16;
        let tables: Vec<Table> = vec![
            vec![(0, vec![Item::Key(nop), Item::Key(30)]), (1, vec![Item::Key(30), Item::Key(nop), Item::Key(48)])],
            vec![(0, vec![Item::Key(30), Item::Key(nop)]), (1, vec![ov(nop, 48)]), (2, vec![Item::Chord(vec![42], nop)])],
        ];
        for t in &tables {
            for o in opts_grid(&mut r, true) {
                histories_for(&mut r, t, &o, true, &mut lines);
                for _ in 0..4 {
                    let h = random_history(&mut r, t, &o);
                    lines.push(r_line(&o, t, &h));
                }
            }
        }
    }
    // (P) OS key repeat inside sequence mode (seeded change C12g): defcfg input mode x leader
    // (sldr, or `(sequence <t> <mode>)` overriding it with each of the three modes) x the position
    // of the key that is HELD while repeat events arrive x 1-3 repeats; the sequence is completed
    // inside the timeout.  Judged by runner/props.py _c12_repeat_oracle.
    {
        let n_tables = if thorough { 12 } else { 4 };
        for ti in 0..n_tables {
            let len = 2 + ti % 2;
            let ks = distinct_keys(&mut r, len + 1, 12);
            let t: Table = vec![
                (ti % NVK, ks[..len].iter().map(|k| Item::Key(*k)).collect()),
                ((ti + 1) % NVK, vec![Item::Key(ks[len]), Item::Key(ks[0])]),
            ];
            for mode in 0..3u8 {
                for leader in 0..4u8 {
                    // leader 0: sldr (the defcfg mode applies); 1..3: (sequence 200 <mode leader-1>)
                    let o = Opts { mode, timeout: 200, always_on: false, modcancel: true, lmode: if leader == 0 { mode } else { leader - 1 }, lt: 200 };
                    let lk = if leader == 0 { K_LEADER } else { K_LEADER2 };
                    for held in 0..len {
                        for reps in 1..=(if thorough { 3 } else { 2 }) {
                            let mut h = vec![Ev::P(lk), Ev::T(3), Ev::R(lk), Ev::T(3)];
                            for (i, k) in ks[..len].iter().enumerate() {
                                h.extend([Ev::P(*k), Ev::T(3)]);
                                if i == held {
                                    for _ in 0..reps {
                                        h.extend([Ev::Rep(*k), Ev::T(r.range(1, 3) as u32)]);
                                    }
                                }
                                h.extend([Ev::R(*k), Ev::T(3)]);
                            }
                            h.push(Ev::T(12));
                            lines.push(r_line(&o, &t, &h).replacen("C12 R ", "C12 P ", 1));
                        }
                    }
                }
            }
        }
    }
    lines
}

// ---------------------------------------------------------------- evaluation on the real code
struct Toks<'a> {
    t: Vec<&'a str>,
    i: usize,
}
impl<'a> Toks<'a> {
    fn next(&mut self) -> &'a str {
        let s = self.t[self.i];
        self.i += 1;
        s
    }
    fn num(&mut self) -> u64 {
        self.next().parse().expect("number token")
    }
}

fn parse_item(t: &mut Toks) -> Item {
    match t.next() {
        "k" => Item::Key(t.num() as u16),
        "c" => {
            let nm = t.num();
            let m = (0..nm).map(|_| t.num() as u16).collect();
            Item::Chord(m, t.num() as u16)
        }
        "h" => {
            let nm = t.num();
            let m = (0..nm).map(|_| t.num() as u16).collect();
            let n = t.num();
            Item::Held(m, (0..n).map(|_| parse_item(t)).collect())
        }
        "s" => {
            let n = t.num();
            Item::Sub((0..n).map(|_| parse_item(t)).collect())
        }
        x => panic!("harness: bad item token {x}"),
    }
}

fn parse_table(t: &mut Toks) -> Table {
    let n = t.num();
    (0..n)
        .map(|_| {
            let vk = t.num() as usize;
            let ni = t.num();
            (vk, (0..ni).map(|_| parse_item(t)).collect())
        })
        .collect()
}

fn classify_err(msg: &str) -> String {
    // the Debug rendering of the diagnostic wraps lines: compare on words only
    let squeezed: String = msg.chars().map(|c| if c.is_ascii_alphanumeric() { c } else { ' ' }).collect();
    let squeezed = squeezed.split_whitespace().collect::<Vec<_>>().join(" ");
    let msg = squeezed.as_str();
    let c = if msg.contains("cannot be combined with other modifiers") {
        "overlapCombined"
    } else if msg.contains("lists must have a minimum of 2") {
        "overlapMin"
    } else if msg.contains("lists must have a maximum of 6") {
        "overlapMax"
    } else if msg.contains("key list cannot be empty") {
        "emptyKeyList"
    } else if msg.contains("Found invalid key chord in key list") {
        "badItem"
    } else if msg.contains("contains an earlier defined sequence") {
        "conflictAncestor"
    } else if msg.contains("is contained within an earlier defined") {
        "conflictDescendant"
    } else {
        return format!("rej other {}", msg.chars().take(160).collect::<String>());
    };
    format!("rej {c}")
}

fn classify_panic(e: Box<dyn std::any::Any + Send>) -> String {
    let msg = if let Some(s) = e.downcast_ref::<String>() {
        s.clone()
    } else if let Some(s) = e.downcast_ref::<&str>() {
        s.to_string()
    } else {
        "?".to_string()
    };
    if msg.contains("had to be pressed to be released") {
        "crash expectPressed".into()
    } else if msg.contains("subtract with overflow") {
        "crash timeoutUnderflow".into()
    } else if msg.contains("add with overflow") {
        "crash noeraseOverflow".into()
    } else {
        format!("crash panic {}", msg.replace('\n', " "))
    }
}

/// The stored (key list, virtual key index) pairs, from the Debug rendering of the trie:
/// `Trie { inner: {[30, 0, 48, 0]: (1, 0), ...} }` — keys are little-endian byte pairs.
fn stored_pairs(t: &Trie<(u8, u16)>) -> Vec<(Vec<u16>, u16)> {
    let s = format!("{:?}", t);
    let mut out = vec![];
    let mut rest = s.as_str();
    while let Some(p) = rest.find('[') {
        let q = rest[p..].find(']').expect("]") + p;
        let bytes: Vec<u16> = rest[p + 1..q]
            .split(',')
            .filter(|x| !x.trim().is_empty())
            .map(|x| x.trim().parse::<u16>().expect("byte"))
            .collect();
        assert!(bytes.len() % 2 == 0, "harness: odd key length in trie debug output");
        let key: Vec<u16> = bytes.chunks(2).map(|c| c[0] | (c[1] << 8)).collect();
        let after = &rest[q + 1..];
        let lp = after.find('(').expect("(");
        let rp = after.find(')').expect(")");
        let mut it = after[lp + 1..rp].split(',').map(|x| x.trim().parse::<u16>().expect("coord"));
        let row = it.next().unwrap();
        let col = it.next().unwrap();
        assert_eq!(row, 1, "harness: sequence value not on the virtual key row");
        out.push((key, col));
        rest = &after[rp + 1..];
    }
    out
}

fn fmt_pairs(mut p: Vec<(Vec<u16>, u16)>) -> String {
    p.sort();
    if p.is_empty() {
        return "-".into();
    }
    p.iter()
        .map(|(k, v)| format!("{}:{}", k.iter().map(|x| x.to_string()).collect::<Vec<_>>().join(","), v))
        .collect::<Vec<_>>()
        .join(" ")
}

fn csv(v: &[u16]) -> String {
    if v.is_empty() {
        "-".into()
    } else {
        v.iter().map(|x| x.to_string()).collect::<Vec<_>>().join(",")
    }
}

fn eval_q(t: &mut Toks) -> String {
    let nk = t.num();
    let mut trie: Trie<u32> = Trie::new();
    for i in 0..nk {
        let n = t.num();
        let k: Vec<u16> = (0..n).map(|_| t.num() as u16).collect();
        trie.insert(&k, i as u32);
    }
    let nq = t.num();
    let mut out = vec![];
    for _ in 0..nq {
        let n = t.num();
        let k: Vec<u16> = (0..n).map(|_| t.num() as u16).collect();
        let g = match trie.get_or_descendant_exists(&k) {
            GetOrDescendentExistsResult::NotInTrie => "N".to_string(),
            GetOrDescendentExistsResult::InTrie => "I".to_string(),
            GetOrDescendentExistsResult::HasValue(v) => format!("V{v}"),
        };
        out.push(format!("a{}d{}g{}", trie.ancestor_exists(&k) as u8, trie.descendant_exists(&k) as u8, g));
    }
    if out.is_empty() {
        "-".into()
    } else {
        out.join(" ")
    }
}

fn eval_t(t: &mut Toks) -> String {
    let tbl = parse_table(t);
    let text = format!("(defsrc a)\n(deflayer base a)\n{}", text_table(&tbl));
    match cfg::new_from_str(&text, Default::default()) {
        Ok(c) => format!("ok {}", fmt_pairs(stored_pairs(&c.sequences))),
        Err(e) => classify_err(&format!("{:?}", e)),
    }
}

fn out_code(name: &str, names: &[(String, u16)]) -> u16 {
    names.iter().find(|(n, _)| n == name).map(|(_, c)| *c).unwrap_or_else(|| panic!("harness: unknown output key name {name}"))
}

fn eval_r(t: &mut Toks) -> String {
    eval_r_in(t, false)
}

/// family P: an R line whose history may hold `rp <key>` (OS key repeat); no Lean model of
/// `handle_repeat_actual`, so the answer is `unsupported :: TRACE <trace> | <final state>`
fn eval_p(t: &mut Toks) -> String {
    eval_r_in(t, true)
}

fn eval_r_in(t: &mut Toks, free: bool) -> String {
    let mode = t.num() as usize;
    let timeout = t.num();
    let ao = t.num() != 0;
    let mc = t.num() != 0;
    let lmode = t.num() as usize;
    let lt = t.num();
    let tbl = parse_table(t);
    assert_eq!(t.next(), "H");
    let n = t.num();
    let mut hist = vec![];
    for _ in 0..n {
        hist.push(match t.next() {
            "p" => Ev::P(t.num() as u16),
            "r" => Ev::R(t.num() as u16),
            "t" => Ev::T(t.num() as u32),
            "rp" if free => Ev::Rep(t.num() as u16),
            x => panic!("harness: bad event token {x}"),
        });
    }
    let yn = |b: bool| if b { "yes" } else { "no" };
    let mut text = format!(
        "(defcfg sequence-timeout {} sequence-input-mode {} sequence-always-on {} sequence-backtrack-modcancel {})\n",
        timeout,
        MODE_NAMES[mode],
        yn(ao),
        yn(mc)
    );
    let names: Vec<&str> = TYPED.iter().map(|(_, n)| *n).collect();
    text.push_str(&format!("(defsrc {} f1 f2 f3 f4)\n", names.join(" ")));
    text.push_str(&format!(
        "(deflayer base {} sldr (sequence {} {}) scnl (sequence-noerase 1))\n",
        names.join(" "),
        lt,
        MODE_NAMES[lmode]
    ));
    text.push_str(&text_table(&tbl));
    if let Err(e) = cfg::new_from_str(&text, Default::default()) {
        return classify_err(&format!("{:?}", e));
    }
    let mut k = match Kanata::new_from_str(&text, Default::default()) {
        Ok(k) => k,
        Err(e) => return format!("rej other {}", format!("{:?}", e).replace('\n', " ").chars().take(80).collect::<String>()),
    };
    let pairs = fmt_pairs(stored_pairs(&k.sequences));
    // reverse map of the simulated sink's key names
    let mut key_names: Vec<(String, u16)> = vec![];
    for c in 0..768u16 {
        if let Some(osc) = OsCode::from_u16(c) {
            key_names.push((format!("{:?}", KeyCode::from(osc)), c));
        }
    }
    let mut trace: Vec<String> = vec![];
    let mut tick_no = 0u64;
    let mut seen = 0usize;
    for e in hist {
        match e {
            Ev::P(c) => k
                .handle_input_event(&KeyEvent { code: OsCode::from_u16(c).expect("valid code"), value: KeyValue::Press })
                .expect("input"),
            Ev::R(c) => k
                .handle_input_event(&KeyEvent { code: OsCode::from_u16(c).expect("valid code"), value: KeyValue::Release })
                .expect("input"),
            // what a repeat writes is collected with the next tick (a repeat shows as a press in
            // the simulated output)
            Ev::Rep(c) => k
                .handle_input_event(&KeyEvent { code: OsCode::from_u16(c).expect("valid code"), value: KeyValue::Repeat })
                .expect("input"),
            Ev::T(n) => {
                for _ in 0..n {
                    k.tick_ms(1, &None).expect("tick");
                    tick_no += 1;
                    let mut toks = vec![];
                    let evs = &k.kbd_out.outputs.events;
                    for ev in &evs[seen..] {
                        if ev.starts_with("t:") {
                            continue;
                        }
                        if let Some(name) = ev.strip_prefix("out:↓") {
                            toks.push(format!("d{}", out_code(name, &key_names)));
                        } else if let Some(name) = ev.strip_prefix("out:↑") {
                            toks.push(format!("u{}", out_code(name, &key_names)));
                        } else {
                            toks.push(format!("?{ev}"));
                        }
                    }
                    seen = evs.len();
                    for s in k.layout.b().states.iter() {
                        if let Some((1, y)) = s.coord() {
                            toks.push(format!("V{y}"));
                        }
                    }
                    if !toks.is_empty() {
                        trace.push(format!("@{tick_no}"));
                        trace.extend(toks);
                    }
                }
            }
        }
    }
    let st = &k.sequence_state;
    let states: Vec<String> = k
        .layout
        .b()
        .states
        .iter()
        .map(|s| match s {
            State::NormalKey { keycode, coord, .. } => format!("K{}@{}.{}", u16::from(OsCode::from(*keycode)), coord.0, coord.1),
            State::Custom { coord, .. } => format!("C@{}.{}", coord.0, coord.1),
            other => format!("?{:?}", other.keycode()),
        })
        .collect();
    format!(
        "{}ok {} | {} | {} s={} o={} tk={} st={}",
        if free { "unsupported :: TRACE " } else { "" },
        pairs,
        if trace.is_empty() { "-".to_string() } else { trace.join(" ") },
        if st.is_active() { "A" } else { "I" },
        csv(&st.sequence),
        csv(&st.overlapped_sequence),
        st.ticks_until_timeout,
        if states.is_empty() { "-".to_string() } else { states.join(",") }
    )
}

pub fn eval(line: &str) -> String {
    let line = line.to_string();
    let res = std::panic::catch_unwind(move || {
        let mut t = Toks { t: line.split_whitespace().collect(), i: 0 };
        assert_eq!(t.next(), "C12");
        match t.next() {
            "Q" => eval_q(&mut t),
            "T" => eval_t(&mut t),
            "R" => eval_r(&mut t),
            "P" => eval_p(&mut t),
            x => format!("harness-error bad case kind {x}"),
        }
    });
    match res {
        Ok(s) => s,
        Err(e) => classify_panic(e),
    }
}
