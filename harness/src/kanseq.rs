//! Sequence mode for the kanata-level cases (`KANX` lines): the `defseq` table and the sequence
//! options, as tokens for `Drv/KanSeq.lean`.
//!
//! `SEQ <n> (<len> <u16>* <j>)* mc <0/1> ao <0/1> mode <0/1/2> to <timeout>`
//!   - the stored (key list, virtual key column) pairs of `cfg.sequences`, sorted by key list; the
//!     trie has no iteration API that is public, so the pairs are read from its `Debug` rendering
//!     (`Trie { inner: {[30, 0, 48, 0]: (1, 0), ...} }`, little-endian byte pairs) as c12.rs does
//!   - `sequence-backtrack-modcancel`, `sequence-always-on`, `sequence-input-mode`, `sequence-timeout`
use kanata_parser::cfg;
use kanata_parser::custom_action::SequenceInputMode;
use kanata_parser::trie::Trie;

pub fn mode_num(m: &SequenceInputMode) -> u8 {
    match m {
        SequenceInputMode::HiddenSuppressed => 0,
        SequenceInputMode::HiddenDelayType => 1,
        SequenceInputMode::VisibleBackspaced => 2,
    }
}

fn stored_pairs(t: &Trie<(u8, u16)>) -> Vec<(Vec<u16>, u16)> {
    let s = format!("{:?}", t);
    let mut out = vec![];
    let mut rest = s.as_str();
    while let Some(p) = rest.find('[') {
        let q = rest[p..].find(']').expect("]") + p;
        let bytes: Vec<u16> = rest[p + 1..q]
            .split(',')
            .filter(|x| !x.trim().is_empty())
            .map(|x| x.trim().parse::<u16>().expect("byte"))
            .collect();
        assert!(bytes.len() % 2 == 0, "harness: odd key length in trie debug output");
        let key: Vec<u16> = bytes.chunks(2).map(|c| c[0] | (c[1] << 8)).collect();
        let after = &rest[q + 1..];
        let lp = after.find('(').expect("(");
        let rp = after.find(')').expect(")");
        let mut it = after[lp + 1..rp].split(',').map(|x| x.trim().parse::<u16>().expect("coord"));
        let row = it.next().unwrap();
        let col = it.next().unwrap();
        assert_eq!(row, 1, "harness: sequence value not on the virtual key row");
        out.push((key, col));
        rest = &after[rp + 1..];
    }
    out
}

pub fn seq_tokens(c: &cfg::Cfg) -> String {
    let mut pairs = stored_pairs(&c.sequences);
    pairs.sort();
    let mut s = format!("SEQ {}", pairs.len());
    for (k, j) in &pairs {
        s.push_str(&format!(" {}", k.len()));
        for x in k {
            s.push_str(&format!(" {x}"));
        }
        s.push_str(&format!(" {j}"));
    }
    s.push_str(&format!(
        " mc {} ao {} mode {} to {}",
        c.options.sequence_backtrack_modcancel as u8,
        c.options.sequence_always_on as u8,
        mode_num(&c.options.sequence_input_mode),
        c.options.sequence_timeout
    ));
    s
}

// ------------------------------------------------------------------------------------------------
// Generator: kanata-level cases (KAN lines) whose configuration uses sequence mode, for the composed
// model (Model/Kanata.lean + Model/KanataSeq.lean). Part of `gen C12`.
use crate::cfggen::code;
use crate::kan::{mk_kline, KEv};
use crate::lay::HEv;
use crate::rng::Rng;

const MODES: [&str; 3] = ["hidden-suppressed", "hidden-delay-type", "visible-backspaced"];
/// physical keys of the generated configurations, in `defsrc` order
const SRC: [&str; 16] = ["a", "b", "c", "d", "e", "lsft", "lctl", "ralt", "1", "2", "3", "4", "5", "6", "7", "8"];

/// `defseq` tables: plain, chorded, overlapping, with modifiers typed as keys
fn tables() -> Vec<&'static str> {
    vec![
        "(defseq v1 (a b) v2 (a c d) v3 (b))",
        "(defseq v1 (a b c) v2 (b c) v3 (c a))",
        "(defseq v1 (S-a b) v2 (S-(a b)) v3 (a S-b))",
        "(defseq v1 (O-(a b)) v2 (a b c) v3 (O-(c d) e))",
        "(defseq v1 (lsft a) v2 (C-a) v3 (C-S-a b) v4 (AG-a))",
        "(defseq v1 (a) v2 (b a) v3 (O-(a b c)))",
        "(defseq v1 (a a) v2 (a b a) v3 (e))\n(defseq v4 (d d d))",
        "(defseq v1 (a b) v2 (O-(a b) c) v3 (S-(c d)) v4 (c d))",
    ]
}

/// virtual keys: plain, chord, macro, a key of the table (feeds the press loop again), a leader
fn vkeys(r: &mut Rng) -> String {
    let pool = [
        "x", "y", "z", "S-x", "(macro x y)", "(macro x 5 y 5 z)", "a", "b", "(multi lctl x)", "sldr", "(layer-while-held nav)",
        "(one-shot 200 lsft)", "(tap-hold 50 50 x y)", "(unicode q)", "mlft", "XX", "(multi x (sequence-noerase 1))", "bspc",
    ];
    let mut s = String::from("(defvirtualkeys");
    for i in 1..=4 {
        s.push_str(&format!(" v{i} {}", r.pick(&pool)));
    }
    s.push_str(")\n");
    s
}

/// the action of one of the keys `1`..`8` (leader, cancel, noerase and things that interact)
fn special(r: &mut Rng, timeout: u64) -> String {
    let m = *r.pick(&MODES);
    let t2 = *r.pick(&[1u64, 2, 5, 20, 50, 100, 300]);
    let pool: Vec<String> = vec![
        "sldr".into(),
        format!("(sequence {t2} {m})"),
        format!("(sequence {timeout})"),
        "scnl".into(),
        format!("(sequence-noerase {})", r.pick(&[1u64, 1, 2, 3, 10])),
        "rpt".into(),
        "(multi scnl sldr)".into(),
        "(multi sldr scnl)".into(),
        format!("(multi sldr (sequence-noerase {}))", r.pick(&[1u64, 2])),
        "(multi sldr a)".into(),
        "(multi a sldr)".into(),
        "(tap-hold 50 50 sldr lsft)".into(),
        "(tap-hold 30 30 a sldr)".into(),
        "(caps-word 200)".into(),
        "(on-press tap-vkey v1)".into(),
        "(on-release tap-vkey v2)".into(),
        "(on-idle 30 tap-vkey v3)".into(),
        "(hold-for-duration 20 v1)".into(),
        "(layer-while-held nav)".into(),
        "(one-shot 100 lsft)".into(),
        "(macro a 3 b)".into(),
        "(macro sldr 2 a 2 b)".into(),
        "(unmod a)".into(),
        "(unshift b)".into(),
        "(multi lsft a)".into(),
        "S-a".into(),
        "mlft".into(),
        "(mwheel-up 10 120)".into(),
        "(tap-dance 40 (sldr scnl))".into(),
        "(fork a sldr (lsft))".into(),
        "(switch ((key-history a 1)) sldr break () scnl break)".into(),
        "XX".into(),
        "_".into(),
        "(on-press press-vkey v1)".into(),
        "(on-press release-vkey v1)".into(),
        "(on-press toggle-vkey v4)".into(),
    ];
    r.pick(&pool).clone()
}

pub struct SeqCfg {
    pub text: String,
    pub timeout: u64,
}

fn gen_cfg(r: &mut Rng, simple: bool) -> SeqCfg {
    let timeout = *r.pick(&[1u64, 2, 3, 10, 30, 100, 1000]);
    let mode = *r.pick(&MODES);
    let ao = r.chance(1, 4);
    let mut text = format!("(defcfg sequence-timeout {timeout} sequence-input-mode {mode}");
    if ao {
        text.push_str(" sequence-always-on yes");
    }
    if r.chance(1, 2) {
        text.push_str(&format!(" sequence-backtrack-modcancel {}", if r.chance(1, 2) { "yes" } else { "no" }));
    }
    if !simple && r.chance(1, 5) {
        text.push_str(" override-release-on-activation yes");
    }
    text.push_str(")\n");
    if simple {
        text.push_str("(defvirtualkeys v1 x v2 y v3 z v4 w)\n");
    } else {
        text.push_str(&vkeys(r));
    }
    let tbls = tables();
    text.push_str(*r.pick(&tbls[..]));
    text.push('\n');
    if !simple && r.chance(1, 4) {
        text.push_str("(defoverrides (lsft a) (b) (lctl c) (lsft d))\n");
    }
    text.push_str(&format!("(defsrc {})\n", SRC.join(" ")));
    let mut base = String::from("(deflayer base a b c d e lsft lctl ralt");
    if simple {
        base.push_str(&format!(" sldr scnl (sequence-noerase 1) (sequence {} {}) rpt (multi scnl sldr) XX _", *r.pick(&[5u64, 50]), r.pick(&MODES)));
    } else {
        for _ in 0..8 {
            base.push(' ');
            base.push_str(&special(r, timeout));
        }
    }
    base.push_str(")\n");
    text.push_str(&base);
    text.push_str("(deflayer nav b a _ _ _ _ _ _ _ _ _ _ _ _ _ _)\n");
    SeqCfg { text, timeout }
}

fn rand_hist(r: &mut Rng, timeout: u64, n: usize, loop_mode: bool) -> Vec<KEv> {
    let keys: Vec<u16> = SRC.iter().map(|n| code(n)).collect();
    let mut down: Vec<u16> = vec![];
    let mut h = vec![];
    let t = timeout as u32;
    let gaps: Vec<u32> = vec![0, 0, 1, 1, 1, 2, 3, 5, t.saturating_sub(1).max(1), t, t + 1, 60];
    let wait = |r: &mut Rng, h: &mut Vec<KEv>| {
        let g = (*r.pick(&gaps)).min(400);
        if g > 0 {
            if loop_mode {
                h.push(KEv::Gap(g))
            } else {
                h.push(KEv::L(HEv::Tick(g)))
            }
        }
    };
    for _ in 0..n {
        let c = r.below(20);
        if c == 0 && !down.is_empty() && !loop_mode {
            h.push(KEv::Rep(*r.pick(&down)));
        } else if c == 1 && !loop_mode {
            h.push(KEv::Tap(*r.pick(&keys[..5])));
        } else if c == 2 && !loop_mode {
            h.push(KEv::Fake(r.below(4) as u8, 1, r.below(4) as u16));
        } else {
            // typed keys are more likely than the special ones
            let k = if r.chance(3, 5) { *r.pick(&keys[..8]) } else { *r.pick(&keys) };
            if let Some(i) = down.iter().position(|d| *d == k) {
                down.remove(i);
                h.push(KEv::L(HEv::Release(0, k)));
            } else if r.chance(1, 30) {
                h.push(KEv::L(HEv::Release(0, k))); // release of a key that is up
            } else {
                down.push(k);
                h.push(KEv::L(HEv::Press(0, k)));
            }
        }
        wait(r, &mut h);
    }
    while let Some(k) = down.pop() {
        h.push(KEv::L(HEv::Release(0, k)));
        wait(r, &mut h);
    }
    if loop_mode {
        h.push(KEv::Gap(timeout.min(1200) as u32 + 50));
    } else {
        h.push(KEv::L(HEv::Tick(timeout.min(1200) as u32 + 50)));
    }
    h
}

/// leader, then the given keys tapped `gap` apart (`hold`: all held until the end)
fn typed(leader: u16, ks: &[&str], gap: u32, hold: bool, tail: u32) -> Vec<KEv> {
    let mut h = vec![KEv::L(HEv::Press(0, leader)), KEv::L(HEv::Tick(1)), KEv::L(HEv::Release(0, leader)), KEv::L(HEv::Tick(1))];
    for k in ks {
        h.push(KEv::L(HEv::Press(0, code(k))));
        h.push(KEv::L(HEv::Tick(1)));
        if !hold {
            h.push(KEv::L(HEv::Release(0, code(k))));
        }
        if gap > 0 {
            h.push(KEv::L(HEv::Tick(gap)));
        }
    }
    if hold {
        for k in ks.iter().rev() {
            h.push(KEv::L(HEv::Release(0, code(k))));
            h.push(KEv::L(HEv::Tick(1)));
        }
    }
    h.push(KEv::L(HEv::Tick(tail)));
    h
}

pub fn gen(tier: &str, seed: u64) -> Vec<String> {
    let mut r = Rng::new(seed ^ 0x5e9_c0de);
    let thorough = tier == "thorough";
    let mut lines = vec![];
    // (a) simple configurations (leader / cancel / noerase / second leader / rpt on fixed keys),
    //     every table x structured typing with gaps around the timeout
    let n_simple = if thorough { 240 } else { 60 };
    for _ in 0..n_simple {
        let c = gen_cfg(&mut r, true);
        let t = c.timeout.min(1200) as u32;
        let plans: [&[&str]; 8] = [&["a", "b"], &["a", "c", "d"], &["b", "c"], &["lsft", "a", "b"], &["a", "b", "c"], &["a", "e"], &["c", "d", "e"], &["a", "a"]];
        let plan = *r.pick(&plans);
        for gap in [0u32, 1, t.saturating_sub(2), t.saturating_sub(1), t] {
            lines.push(mk_kline("KAN", false, &c.text, &typed(code("1"), plan, gap, r.chance(1, 3), t + 40)));
        }
        for _ in 0..3 {
            let n = r.range(4, 40) as usize;
            let lm = r.chance(1, 3);
            lines.push(mk_kline("KAN", false, &c.text, &rand_hist(&mut r, c.timeout, n, lm)));
        }
    }
    // (b) rich configurations: random special keys, virtual keys that feed back, overrides
    let n_rich = if thorough { 1600 } else { 320 };
    for _ in 0..n_rich {
        let c = gen_cfg(&mut r, false);
        for _ in 0..2 {
            let n = r.range(4, 60) as usize;
            let lm = r.chance(1, 3);
            lines.push(mk_kline("KAN", false, &c.text, &rand_hist(&mut r, c.timeout, n, lm)));
        }
    }
    // (c) sequence mode next to chords v2 (both machines in one configuration): the virtual-key taps of a
    //     completed sequence go through `Layout::event`, i.e. into the chords-v2 queue
    let n_chv2 = if thorough { 200 } else { 48 };
    for _ in 0..n_chv2 {
        let timeout = *r.pick(&[2u64, 10, 30, 100]);
        let mode = *r.pick(&MODES);
        let ao = r.chance(1, 4);
        let mut text = format!("(defcfg concurrent-tap-hold yes sequence-timeout {timeout} sequence-input-mode {mode}");
        if ao {
            text.push_str(" sequence-always-on yes");
        }
        if r.chance(1, 3) {
            text.push_str(" chords-v2-min-idle 10");
        }
        text.push_str(")\n(defvirtualkeys v1 x v2 y v3 (macro z z) v4 a)\n");
        let tbls = tables();
        text.push_str(*r.pick(&tbls[..]));
        text.push('\n');
        text.push_str(&format!("(defsrc {})\n", SRC.join(" ")));
        text.push_str("(deflayer base a b c d e lsft lctl ralt sldr scnl (sequence-noerase 1) (sequence 20 hidden-delay-type) rpt (on-press tap-vkey v1) XX _)\n");
        text.push_str("(deflayer nav b a _ _ _ _ _ _ _ _ _ _ _ _ _ _)\n");
        let chords = [
            "(defchordsv2\n (a b) x 30 all-released ()\n (c d) (multi lsft y) 30 first-release ())\n",
            "(defchordsv2\n (a b c) z 50 all-released ()\n (d e) sldr 20 first-release ())\n",
            "(defchordsv2\n (b c) a 10 all-released (nav)\n (1 2) x 30 first-release ())\n",
        ];
        text.push_str(*r.pick(&chords[..]));
        for _ in 0..3 {
            let n = r.range(4, 40) as usize;
            let lm = r.chance(1, 3);
            // direct handle_fakekey_action calls are left out of this family: with chords v2 configured
            // the composed model places the event a direct call hands to `Layout::event` one tick later
            // than the code in rare interleavings with a physical press of the same millisecond
            // (27 of 715 764 thorough cases; an open inaccuracy of Model/KanataV2.lean, DESIGN §10.4).
            // Virtual keys operated from keys, macros and completed sequences stay in.
            let h: Vec<KEv> = rand_hist(&mut r, timeout, n, lm).into_iter().filter(|e| !matches!(e, KEv::Fake(..))).collect();
            lines.push(mk_kline("KAN", false, &text, &h));
        }
    }
    lines
}
