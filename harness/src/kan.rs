//! Kanata-level cases: the real `Kanata` (parser + layout + glue + simulated output sink).
//!
//! source line : `KAN <dbg> <hex(cfg text)> HIST <n> (p 0 y | r 0 y | t n | rp y | tp y | fk a x y | gap n)*`
//!   - `t n`   : n calls of `tick_ms(1)` (the deterministic stepper)
//!   - `gap n` : n milliseconds of the processing loop with no input: each millisecond the loop asks
//!               `can_block_update_idle_waiting`; if it may block, nothing runs until the next input
//!   - an input event in a history that contains `gap` is followed by one `tick_ms(1)` as in the loop
//! expand      : `KANX dbg <layout cfg> CUS … KO … OPT … HIST …` for the model
//! eval        : OS events with virtual-time stamps `@<ms> d<code> u<code> bd<n> bu<n> s<dir>,<dist> m<dir> U<cp> c<code>p|r`,
//!               then `I idle=<0/1> block=<0/1>` and `D <layout digest>`
use crate::lay::{parse_cfg, serialise_cfg, unhex, HEv};
use crate::ser::Ser;
use kanata_keyberon::key_code::KeyCode;
use kanata_parser::cfg;
use kanata_parser::custom_action::*;
use kanata_parser::keys::{str_to_oscode, OsCode};
use kanata_state_machine::oskbd::{KeyEvent, KeyValue};
use kanata_state_machine::Kanata;

#[derive(Clone, Debug, PartialEq)]
pub enum KEv {
    L(HEv),
    Rep(u16),
    Tap(u16),
    Fake(u8, u8, u16),
    Gap(u32),
}

pub fn khist_tokens(h: &[KEv]) -> String {
    let mut s = format!("HIST {}", h.len());
    for e in h {
        match e {
            KEv::L(HEv::Press(r, y)) => s.push_str(&format!(" p {r} {y}")),
            KEv::L(HEv::Release(r, y)) => s.push_str(&format!(" r {r} {y}")),
            KEv::L(HEv::Tick(n)) => s.push_str(&format!(" t {n}")),
            KEv::Rep(y) => s.push_str(&format!(" rp {y}")),
            KEv::Tap(y) => s.push_str(&format!(" tp {y}")),
            KEv::Fake(a, x, y) => s.push_str(&format!(" fk {a} {x} {y}")),
            KEv::Gap(n) => s.push_str(&format!(" gap {n}")),
        }
    }
    s
}

pub fn mk_kline(tag: &str, dbg: bool, cfg_text: &str, hist: &[KEv]) -> String {
    format!("{tag} {} {} {}", if dbg { 1 } else { 0 }, crate::lay::hex(cfg_text), khist_tokens(hist))
}

pub struct KParsed {
    pub tag: String,
    pub dbg: bool,
    pub cfg_text: String,
    pub hist: Vec<KEv>,
    pub hist_str: String,
}

pub fn parse_kline(line: &str) -> KParsed {
    let t: Vec<&str> = line.split_whitespace().collect();
    let tag = t[0].to_string();
    let dbg = t[1] == "1";
    let cfg_text = unhex(t[2]);
    assert_eq!(t[3], "HIST");
    let n: usize = t[4].parse().unwrap();
    let mut hist = vec![];
    let mut i = 5;
    for _ in 0..n {
        match t[i] {
            "p" => {
                hist.push(KEv::L(HEv::Press(t[i + 1].parse().unwrap(), t[i + 2].parse().unwrap())));
                i += 3;
            }
            "r" => {
                hist.push(KEv::L(HEv::Release(t[i + 1].parse().unwrap(), t[i + 2].parse().unwrap())));
                i += 3;
            }
            "t" => {
                hist.push(KEv::L(HEv::Tick(t[i + 1].parse().unwrap())));
                i += 2;
            }
            "rp" => {
                hist.push(KEv::Rep(t[i + 1].parse().unwrap()));
                i += 2;
            }
            "tp" => {
                hist.push(KEv::Tap(t[i + 1].parse().unwrap()));
                i += 2;
            }
            "fk" => {
                hist.push(KEv::Fake(t[i + 1].parse().unwrap(), t[i + 2].parse().unwrap(), t[i + 3].parse().unwrap()));
                i += 4;
            }
            "gap" => {
                hist.push(KEv::Gap(t[i + 1].parse().unwrap()));
                i += 2;
            }
            x => panic!("harness: bad history token {x}"),
        }
    }
    KParsed { tag, dbg, cfg_text, hist, hist_str: t[3..].join(" ") }
}

fn lay_hist(h: &[KEv]) -> Vec<HEv> {
    let mut v = vec![];
    for e in h {
        match e {
            KEv::L(x) => v.push(x.clone()),
            KEv::Rep(y) | KEv::Tap(y) => v.push(HEv::Press(0, *y)),
            KEv::Fake(_, x, y) => v.push(HEv::Press(*x, *y)),
            KEv::Gap(_) => {}
        }
    }
    v
}

fn fk_num(a: &FakeKeyAction) -> u8 {
    match a {
        FakeKeyAction::Press => 0,
        FakeKeyAction::Release => 1,
        FakeKeyAction::Tap => 2,
        FakeKeyAction::Toggle => 3,
    }
}
fn wheel_num(d: &MWheelDirection) -> u8 {
    match d {
        MWheelDirection::Up => 0,
        MWheelDirection::Down => 1,
        MWheelDirection::Left => 2,
        MWheelDirection::Right => 3,
    }
}
fn move_num(d: &MoveDirection) -> u8 {
    match d {
        MoveDirection::Up => 0,
        MoveDirection::Down => 1,
        MoveDirection::Left => 2,
        MoveDirection::Right => 3,
    }
}
fn btn_num(b: &Btn) -> u8 {
    match b {
        Btn::Left => 0,
        Btn::Right => 1,
        Btn::Mid => 2,
        Btn::Forward => 3,
        Btn::Backward => 4,
    }
}

/// Tokens for one custom action; `Err` names an action the kanata-level model does not cover.
fn cact(a: &CustomAction) -> Result<String, String> {
    Ok(match a {
        CustomAction::FakeKey { coord, action } => format!("fk {} {} {}", coord.x, coord.y, fk_num(action)),
        CustomAction::FakeKeyOnRelease { coord, action } => format!("fkr {} {} {}", coord.x, coord.y, fk_num(action)),
        CustomAction::FakeKeyOnIdle(f) => format!("fki {} {} {} {}", f.coord.x, f.coord.y, fk_num(&f.action), f.idle_duration),
        CustomAction::FakeKeyHoldForDuration(f) => format!("fkh {} {} {}", f.coord.x, f.coord.y, f.hold_duration),
        CustomAction::Mouse(b) => format!("mb {}", btn_num(b)),
        CustomAction::MouseTap(b) => format!("mt {}", btn_num(b)),
        CustomAction::MWheel { direction, interval, distance } => format!("mw {} {} {}", wheel_num(direction), interval, distance),
        CustomAction::MWheelNotch { direction } => format!("mwn {}", wheel_num(direction)),
        CustomAction::MoveMouse { direction, interval, .. } => format!("mm {} {}", move_num(direction), interval),
        CustomAction::MoveMouseAccel { direction, interval, .. } => format!("mm {} {}", move_num(direction), interval),
        CustomAction::MoveMouseSpeed { speed } => format!("mms {speed}"),
        CustomAction::Repeat => "rpt".into(),
        CustomAction::CancelMacroOnRelease => "cmr".into(),
        CustomAction::CancelMacroOnNextPress(d) => format!("cmp {d}"),
        CustomAction::SendArbitraryCode(c) => format!("sac {c}"),
        CustomAction::CapsWord(c) => {
            let mut s = format!(
                "cw {} {} {}",
                if c.repress_behaviour == CapsWordRepressBehaviour::Toggle { 1 } else { 0 },
                c.timeout,
                c.keys_to_capitalize.len()
            );
            for k in c.keys_to_capitalize.iter() {
                s.push_str(&format!(" {}", *k as u16));
            }
            s.push_str(&format!(" {}", c.keys_nonterminal.len()));
            for k in c.keys_nonterminal.iter() {
                s.push_str(&format!(" {}", *k as u16));
            }
            s
        }
        CustomAction::Unmodded { keys, mods } => {
            let mut s = format!("um {} {}", mods.bits(), keys.len());
            for k in keys.iter() {
                s.push_str(&format!(" {}", *k as u16));
            }
            s
        }
        CustomAction::Unshifted { keys } => {
            let mut s = format!("us {}", keys.len());
            for k in keys.iter() {
                s.push_str(&format!(" {}", *k as u16));
            }
            s
        }
        CustomAction::ReverseReleaseOrder => "rro".into(),
        CustomAction::Unicode(c) => format!("uc {}", *c as u32),
        CustomAction::SetMouse { .. } => "sm".into(),
        CustomAction::PushMessage(_) | CustomAction::Cmd(_) | CustomAction::CmdLog(..) | CustomAction::CmdOutputKeys(_) => "oth".into(),
        // on-press-delay / on-release-delay put the thread to sleep for real time; in the virtual
        // time of the harness and of the model they change nothing
        CustomAction::Delay(_) | CustomAction::DelayOnRelease(_) => "oth".into(),
        // [dyn] dynamic macros (model: Model/KanataDyn.lean, Model/KanataDynTick.lean)
        CustomAction::DynamicMacroRecord(id) => format!("dmr {id}"),
        CustomAction::DynamicMacroRecordStop(n) => format!("dms {n}"),
        CustomAction::DynamicMacroPlay(id) => format!("dmp {id}"),
        // [seq] sequence mode is inside the kanata-level model (Model/KanataSeq.lean)
        CustomAction::SequenceLeader(timeout, mode) => format!("sl {} {}", timeout, crate::kanseq::mode_num(mode)),
        CustomAction::SequenceCancel => "sc".into(),
        CustomAction::SequenceNoerase(n) => format!("sn {n}"),
        other => return Err(format!("{other:?}").split(|c: char| !c.is_alphanumeric()).next().unwrap_or("?").to_string()),
    })
}

/// Everything the kanata-level model needs, or the reason the case is out of its scope.
pub fn serialise_kanata(c: &cfg::Cfg, hist: &[KEv]) -> Result<String, String> {
    if c.zippy.is_some() {
        return Err("zippychord".into());
    }
    let lh = lay_hist(hist);
    let (lay, ser) = serialise_cfg(c, &lh);
    // chv2: the `CHV2 …` section of the layout serialisation moves behind the kanata state
    let (lay, chv2_section) = match lay.find(" CHV2 ") {
        Some(i) => (lay[..i].to_string(), Some(lay[i + 1..].to_string())),
        None => (lay, None),
    };
    let mut out = vec![lay];
    // custom action table, in the numbering of the serialiser
    out.push(format!("CUS {}", ser.customs.len()));
    for (ptr, len) in ser.customs.iter() {
        let slice: &[&CustomAction] = unsafe { std::slice::from_raw_parts(*ptr as *const &CustomAction, *len) };
        out.push(len.to_string());
        for a in slice {
            out.push(cact(a)?);
        }
    }
    // key outputs for the universe of physical keys
    let (r0, _) = crate::lay::universe(c, &lh);
    out.push(format!("KO {}", c.key_outputs.len()));
    for l in c.key_outputs.iter() {
        let mut ents = vec![];
        for y in r0.iter() {
            if let Some(osc) = OsCode::from_u16(*y) {
                if let Some(outs) = l.get(&osc) {
                    let mut s = format!("{y} {}", outs.len());
                    for o in outs {
                        s.push_str(&format!(" {}", u16::from(*o)));
                    }
                    ents.push(s);
                }
            }
        }
        out.push(ents.len().to_string());
        out.extend(ents);
    }
    // global overrides: the table is private to the parser; it is rebuilt here from the (generated)
    // configuration text - key names through the parser's own name table - and the model builds
    // its table from that with `Override.tryNew` / `Overrides.new` (validated against the real
    // `override_keys` by C13). Anything this simple reader cannot read stays unsupported.
    let has_overrides = !format!("{:?}", c.overrides).contains("overrides_by_osc: {}");
    let ovr = if has_overrides {
        match OVR_TEXT.with(|t| read_overrides(&t.borrow())) {
            Some(v) => v,
            None => return Err("overrides".into()),
        }
    } else {
        vec![]
    };
    {
        let mut t = format!("OVR {}", ovr.len());
        for (i, o) in &ovr {
            t.push_str(&format!(" I {} {} O {} {}", i.len(), i.iter().map(|x| x.to_string()).collect::<Vec<_>>().join(" "), o.len(), o.iter().map(|x| x.to_string()).collect::<Vec<_>>().join(" ")));
        }
        out.push(t.split_whitespace().collect::<Vec<_>>().join(" "));
    }
    out.push(format!(
        "OPT roa {} smd {} smkt {}",
        c.options.override_release_on_activation as u8, c.options.movemouse_smooth_diagonals as u8, c.switch_max_key_timing
    ));
    // code constants the glue depends on, taken from the compiled code
    let kc = |k: KeyCode| k as u16;
    out.push(format!(
        "NOKEY {} MODS {} {} {} {} {} {} {} {}",
        kc(KeyCode::No), kc(KeyCode::LShift), kc(KeyCode::RShift), kc(KeyCode::LAlt), kc(KeyCode::RAlt),
        kc(KeyCode::LCtrl), kc(KeyCode::RCtrl), kc(KeyCode::LGui), kc(KeyCode::RGui)
    ));
    out.push(format!(
        "BTNS {} 0 {} 1 {} 2 {} 3 {} 4 WH {} 0 {} 1 {} 2 {} 3",
        u16::from(OsCode::BTN_LEFT), u16::from(OsCode::BTN_RIGHT), u16::from(OsCode::BTN_MIDDLE),
        u16::from(OsCode::BTN_EXTRA), u16::from(OsCode::BTN_SIDE),
        u16::from(OsCode::MouseWheelUp), u16::from(OsCode::MouseWheelDown),
        u16::from(OsCode::MouseWheelLeft), u16::from(OsCode::MouseWheelRight)
    ));
    out.push(crate::kanseq::seq_tokens(c)); // [seq]
    if let Some(sec) = chv2_section {
        out.push(sec); // chv2
    }
    Ok(out.join(" "))
}

/// Files a configuration refers to (the dictionary of `defzippy`): lines `;;file <name> <hex(content)>`
/// inside the configuration text (comments to kanata). Empty for every configuration without them.
pub fn cfg_files(text: &str) -> rustc_hash::FxHashMap<String, String> {
    let mut m: rustc_hash::FxHashMap<String, String> = Default::default();
    for l in text.lines() {
        if let Some(rest) = l.trim().strip_prefix(";;file ") {
            let mut it = rest.split_whitespace();
            if let (Some(name), Some(hexed)) = (it.next(), it.next()) {
                m.insert(name.to_string(), unhex(hexed));
            }
        }
    }
    m
}

/// `lay::parse_cfg`, with the files named in the text handed to the parser
fn parse_cfg_files(text: &str) -> Result<cfg::Cfg, String> {
    let files = cfg_files(text);
    if files.is_empty() {
        return parse_cfg(text);
    }
    cfg::new_from_str(text, files).map_err(|e| format!("{e:?}"))
}

pub fn expand(line: &str) -> String {
    let p = parse_kline(line);
    OVR_TEXT.with(|t| *t.borrow_mut() = p.cfg_text.clone());
    match parse_cfg_files(&p.cfg_text) {
        Err(_) => format!("{}X {} REJECT {}", p.tag, p.dbg as u8, p.hist_str),
        Ok(c) => match serialise_kanata(&c, &p.hist) {
            Ok(s) => {
                // [dyn] options and hash-set order hints for configurations with dynamic macros: the
                // ` DYN …` section goes after the kanata state (incl. SEQ) and before the `CHV2` section
                let d = crate::kandyn::dyn_section(&c, &p.cfg_text, &p.hist, &s);
                let s = match s.find(" CHV2 ") {
                    Some(i) if !d.is_empty() => format!("{}{}{}", &s[..i], d, &s[i..]),
                    _ => format!("{s}{d}"),
                };
                format!("{}X {} {} {}", p.tag, p.dbg as u8, s, p.hist_str)
            }
            Err(why) => format!("{}X {} UNSUPPORTED {} {}", p.tag, p.dbg as u8, why, p.hist_str),
        },
    }
}

fn keycode_names() -> std::collections::HashMap<String, u16> {
    let mut m = std::collections::HashMap::new();
    for c in 0..768u16 {
        if let Some(o) = OsCode::from_u16(c) {
            m.entry(format!("{:?}", KeyCode::from(o))).or_insert(c);
        }
    }
    m
}

fn canon_event(e: &str, names: &std::collections::HashMap<String, u16>) -> Option<String> {
    if let Some(r) = e.strip_prefix("out:↓") {
        return Some(format!("d{}", names.get(r).map(|c| c.to_string()).unwrap_or(format!("?{r}"))));
    }
    if let Some(r) = e.strip_prefix("out:↑") {
        return Some(format!("u{}", names.get(r).map(|c| c.to_string()).unwrap_or(format!("?{r}"))));
    }
    let btn = |s: &str| match s {
        "Left" => 0,
        "Right" => 1,
        "Mid" => 2,
        "Forward" => 3,
        "Backward" => 4,
        _ => 9,
    };
    let dir = |s: &str| match s {
        "Up" => 0,
        "Down" => 1,
        "Left" => 2,
        "Right" => 3,
        _ => 9,
    };
    if let Some(r) = e.strip_prefix("out🖰:↓") {
        return Some(format!("bd{}", btn(r)));
    }
    if let Some(r) = e.strip_prefix("out🖰:↑") {
        return Some(format!("bu{}", btn(r)));
    }
    if let Some(r) = e.strip_prefix("out🖰:move ") {
        let d = r.split(',').next().unwrap_or("");
        return Some(format!("m{}", dir(d)));
    }
    if let Some(r) = e.strip_prefix("scroll:") {
        let mut it = r.split(',');
        let d = it.next().unwrap_or("");
        let dist = it.next().unwrap_or("0");
        return Some(format!("s{},{}", dir(d), dist));
    }
    if let Some(r) = e.strip_prefix("outU:") {
        return Some(format!("U{}", r.chars().next().map(|c| c as u32).unwrap_or(0)));
    }
    if let Some(r) = e.strip_prefix("out-code:") {
        let mut it = r.split(';');
        let c = it.next().unwrap_or("0");
        let v = it.next().unwrap_or("");
        return Some(format!("c{}{}", c, if v == "Press" { "p" } else { "r" }));
    }
    if e.starts_with("t:") {
        return None;
    }
    Some(format!("?{e}"))
}

pub struct Runner {
    pub k: Kanata,
    names: std::collections::HashMap<String, u16>,
    seen: usize,
    pub vt: u64,
    pub out: Vec<String>,
    ms_elapsed: u16,
    pub dyn_obs: crate::kandyn::Obs, // [dyn]
    /// chv2: the one-shot list was full at some point while chords v2 is configured (the one path
    /// the model's wrapper does not mirror): the case is answered `unsupported oneshot-evict-chv2`
    pub risk: bool,
}

impl Runner {
    pub fn new(cfg_text: &str) -> Result<Self, String> {
        let k = Kanata::new_from_str(cfg_text, cfg_files(cfg_text)).map_err(|e| format!("{e:?}"))?;
        Ok(Runner { k, names: keycode_names(), seen: 0, vt: 0, out: vec![], ms_elapsed: 0, risk: false, dyn_obs: Default::default() })
    }
    /// chv2: layout digest, extended by the chords-v2 state when chords v2 is configured
    pub fn digest(&self) -> String {
        crate::lay::full_digest(self.k.layout.b())
    }
    fn note_risk(&mut self) {
        let l = self.k.layout.b();
        self.risk |= l.chords_v2.is_some() && l.oneshot.keys.len() >= 16;
    }
    fn collect(&mut self) {
        self.collect_tag("")
    }
    fn collect_tag(&mut self, tag: &str) {
        let evs = &self.k.kbd_out.outputs.events;
        let mut items = vec![];
        for e in &evs[self.seen..] {
            if let Some(c) = canon_event(e, &self.names) {
                items.push(c);
            }
        }
        self.seen = evs.len();
        if !items.is_empty() {
            self.out.push(format!("@{}{} {}", self.vt, tag, items.join(" ")));
        } else if tag == "R" {
            // a repeat event that emitted nothing is recorded too, so that every repeat has an item
            self.out.push(format!("@{}R -", self.vt));
        }
    }
    pub fn tick(&mut self) {
        self.vt += 1;
        self.k.tick_ms(1, &None).unwrap();
        self.dyn_obs.observe(&self.k, self.vt - 1); // [dyn]
        self.collect();
        self.note_risk(); // chv2
    }
    pub fn input(&mut self, code: u16, v: KeyValue) {
        let osc = OsCode::from_u16(code).expect("harness: not an OsCode");
        let _ = self.k.handle_input_event(&KeyEvent { code: osc, value: v });
        self.dyn_obs.observe(&self.k, self.vt); // [dyn]
        // what a repeat event emits is tagged, so that it can be told from what a tick emits
        self.collect_tag(if v == KeyValue::Repeat { "R" } else { "" });
        self.note_risk(); // chv2
    }
    pub fn fake(&mut self, a: u8, x: u8, y: u16) {
        let act = match a {
            0 => FakeKeyAction::Press,
            1 => FakeKeyAction::Release,
            2 => FakeKeyAction::Tap,
            _ => FakeKeyAction::Toggle,
        };
        kanata_state_machine::handle_fakekey_action(act, self.k.layout.bm(), x, y);
        self.note_risk(); // chv2
    }
    /// `n` milliseconds of the processing loop without input
    pub fn gap(&mut self, n: u32) {
        for i in 0..n {
            let block = self.k.can_block_update_idle_waiting(self.ms_elapsed);
            self.note_risk(); // chv2
            if block {
                // blocked until the next input: the rest of the gap passes without ticks
                self.vt += (n - i) as u64;
                return;
            }
            self.tick();
            self.ms_elapsed = 1;
        }
    }
}

pub fn run_hist(r: &mut Runner, hist: &[KEv], loop_mode: bool, dbg: bool) {
    for e in hist {
        match e {
            KEv::L(HEv::Press(_, y)) => {
                r.input(*y, KeyValue::Press);
                if loop_mode {
                    r.tick();
                    r.ms_elapsed = 1;
                }
            }
            KEv::L(HEv::Release(_, y)) => {
                r.input(*y, KeyValue::Release);
                if loop_mode {
                    r.tick();
                    r.ms_elapsed = 1;
                }
            }
            KEv::Rep(y) => r.input(*y, KeyValue::Repeat),
            KEv::Tap(y) => r.input(*y, KeyValue::Tap),
            KEv::Fake(a, x, y) => r.fake(*a, *x, *y),
            KEv::L(HEv::Tick(n)) => {
                for _ in 0..*n {
                    r.tick();
                    if dbg {
                        let d = r.digest(); // chv2
                        r.out.push(format!("#{} {}", r.vt, d));
                    }
                }
            }
            KEv::Gap(n) => {
                if loop_mode {
                    r.gap(*n)
                } else {
                    for _ in 0..*n {
                        r.tick();
                    }
                }
            }
        }
    }
}

pub fn eval(line: &str) -> String {
    let p = parse_kline(line);
    OVR_TEXT.with(|t| *t.borrow_mut() = p.cfg_text.clone());
    let uses_dyn; // [dyn]
    match parse_cfg_files(&p.cfg_text) {
        Err(_) => return "rej".into(),
        Ok(c) => match serialise_kanata(&c, &p.hist) {
            Err(why) => return format!("unsupported {why}"),
            Ok(s) => uses_dyn = crate::kandyn::uses_dyn(&s), // [dyn]
        },
    }
    let loop_mode = p.hist.iter().any(|e| matches!(e, KEv::Gap(_)));
    let mut r = match Runner::new(&p.cfg_text) {
        Ok(r) => r,
        Err(_) => return "rej".into(),
    };
    run_hist(&mut r, &p.hist, loop_mode, p.dbg);
    if r.risk {
        return "unsupported oneshot-evict-chv2".into(); // chv2
    }
    let idle = r.k.is_idle();
    let mut out = r.out.clone();
    out.push(format!("I idle={}", idle as u8));
    out.push(format!("D {}", r.digest())); // chv2
    if uses_dyn {
        out.push(crate::kandyn::digest(&r.k)); // [dyn]
    }
    let res = out.join(" ");
    if loop_mode {
        // the same history with the loop ticking through every gap
        drop(r);
        let mut r2 = Runner::new(&p.cfg_text).unwrap();
        run_hist_always_ticking(&mut r2, &p.hist);
        if r2.risk {
            return "unsupported oneshot-evict-chv2".into(); // chv2
        }
        let mut o2 = r2.out.clone();
        o2.push(format!("I idle={}", r2.k.is_idle() as u8));
        if uses_dyn {
            o2.push(crate::kandyn::digest(&r2.k)); // [dyn]
        }
        format!("{res} || STEP {}", o2.join(" "))
    } else {
        res
    }
}

/// `eval`, except that a configuration outside the kanata-level model is still run on the real code:
/// `unsupported <why> :: TRACE <trace>` (a panic is caught by the caller and shows as a crash)
pub fn eval_free(line: &str) -> String {
    let out = eval(line);
    if !out.starts_with("unsupported") {
        return out;
    }
    let p = parse_kline(line);
    let loop_mode = p.hist.iter().any(|e| matches!(e, KEv::Gap(_)));
    let mut r = match Runner::new(&p.cfg_text) {
        Ok(r) => r,
        Err(_) => return out,
    };
    run_hist(&mut r, &p.hist, loop_mode, false);
    let idle = r.k.is_idle();
    format!("{out} :: TRACE {} I idle={}", r.out.join(" "), idle as u8)
}

/// The same loop, except that it never blocks: it still asks `can_block_update_idle_waiting` every
/// millisecond (that call also advances the idle clock) but ticks regardless of the answer.
pub fn run_hist_always_ticking(r: &mut Runner, hist: &[KEv]) {
    for e in hist {
        match e {
            KEv::L(HEv::Press(_, y)) => {
                r.input(*y, KeyValue::Press);
                r.tick();
                r.ms_elapsed = 1;
            }
            KEv::L(HEv::Release(_, y)) => {
                r.input(*y, KeyValue::Release);
                r.tick();
                r.ms_elapsed = 1;
            }
            KEv::Rep(y) => r.input(*y, KeyValue::Repeat),
            KEv::Tap(y) => r.input(*y, KeyValue::Tap),
            KEv::Fake(a, x, y) => r.fake(*a, *x, *y),
            KEv::L(HEv::Tick(n)) => {
                for _ in 0..*n {
                    r.tick();
                }
            }
            KEv::Gap(n) => {
                for _ in 0..*n {
                    let _ = r.k.can_block_update_idle_waiting(r.ms_elapsed);
                    r.tick();
                    r.ms_elapsed = 1;
                }
            }
        }
    }
}

#[allow(dead_code)]
pub fn unused(_: &Ser) {}


thread_local! {
    /// configuration text of the case being serialised (for `read_overrides`)
    pub static OVR_TEXT: std::cell::RefCell<String> = std::cell::RefCell::new(String::new());
}

/// `(defoverrides (in...) (out...) ...)` items of a configuration text whose lists hold plain key
/// names only; `None` if there is anything else in them
pub fn read_overrides(text: &str) -> Option<Vec<(Vec<u16>, Vec<u16>)>> {
    let mut res = vec![];
    let mut rest = text;
    while let Some(i) = rest.find("(defoverrides") {
        let body = &rest[i + "(defoverrides".len()..];
        // the item ends at its matching parenthesis
        let mut depth = 1i32;
        let mut end = 0;
        for (j, ch) in body.char_indices() {
            match ch {
                '(' => depth += 1,
                ')' => {
                    depth -= 1;
                    if depth == 0 {
                        end = j;
                        break;
                    }
                }
                _ => {}
            }
        }
        let inner = &body[..end];
        let mut lists: Vec<Vec<u16>> = vec![];
        let mut cur: Option<Vec<u16>> = None;
        for tok in inner.replace('(', " ( ").replace(')', " ) ").split_whitespace() {
            match tok {
                "(" => {
                    if cur.is_some() {
                        return None;
                    }
                    cur = Some(vec![]);
                }
                ")" => lists.push(cur.take()?),
                name => cur.as_mut()?.push(u16::from(str_to_oscode(name)?)),
            }
        }
        if lists.len() % 2 != 0 {
            return None;
        }
        for pair in lists.chunks(2) {
            res.push((pair[0].clone(), pair[1].clone()));
        }
        rest = &body[end..];
    }
    Some(res)
}
