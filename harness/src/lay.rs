//! Layout-level cases: a kanata configuration text plus a history of key events and tick gaps.
//!
//! source line : `LAY <dbg> <hex(cfg text)> HIST <n> (p r y | r r y | t n)*`
//! `expand`    : parses the text with the REAL parser and serialises what it produced, for the model:
//!               `LAYX <dbg> tv2 b dfl b qth b osd n NL n {cnt (r y action)*}* SRC cnt (y action)* [CHV2 minidle nkeys (key nch (nk k* pending rb nd d* action)*)*] HIST ...`
//!               (the CHV2 section holds the defchordsv2 table per participating key, in table order)
//! `eval`      : runs the real keyberon `Layout` built by the real parser on the history and prints
//!               the trace of key-code lists and custom events, and the final state digest.
use crate::ser::Ser;
use kanata_keyberon::action::Action;
use kanata_keyberon::layout::{CustomEvent, Event};
use kanata_parser::cfg;

#[derive(Clone, Debug, PartialEq)]
pub enum HEv {
    Press(u8, u16),
    Release(u8, u16),
    Tick(u32),
}

pub fn hex(s: &str) -> String {
    s.bytes().map(|b| format!("{b:02x}")).collect()
}
pub fn unhex(s: &str) -> String {
    let b: Vec<u8> = (0..s.len() / 2).map(|i| u8::from_str_radix(&s[2 * i..2 * i + 2], 16).unwrap()).collect();
    String::from_utf8(b).unwrap()
}

pub fn hist_tokens(h: &[HEv]) -> String {
    let mut s = format!("HIST {}", h.len());
    for e in h {
        match e {
            HEv::Press(r, y) => s.push_str(&format!(" p {r} {y}")),
            HEv::Release(r, y) => s.push_str(&format!(" r {r} {y}")),
            HEv::Tick(n) => s.push_str(&format!(" t {n}")),
        }
    }
    s
}

pub fn mk_line(tag: &str, dbg: bool, cfg_text: &str, hist: &[HEv]) -> String {
    format!("{tag} {} {} {}", if dbg { 1 } else { 0 }, hex(cfg_text), hist_tokens(hist))
}

pub struct Parsed {
    pub tag: String,
    pub dbg: bool,
    pub cfg_text: String,
    pub hist: Vec<HEv>,
    pub hist_str: String,
}

pub fn parse_line(line: &str) -> Parsed {
    let t: Vec<&str> = line.split_whitespace().collect();
    let tag = t[0].to_string();
    let dbg = t[1] == "1";
    let cfg_text = unhex(t[2]);
    assert_eq!(t[3], "HIST");
    let n: usize = t[4].parse().unwrap();
    let mut hist = vec![];
    let mut i = 5;
    for _ in 0..n {
        match t[i] {
            "p" => {
                hist.push(HEv::Press(t[i + 1].parse().unwrap(), t[i + 2].parse().unwrap()));
                i += 3;
            }
            "r" => {
                hist.push(HEv::Release(t[i + 1].parse().unwrap(), t[i + 2].parse().unwrap()));
                i += 3;
            }
            "t" => {
                hist.push(HEv::Tick(t[i + 1].parse().unwrap()));
                i += 2;
            }
            x => panic!("harness: bad history token {x}"),
        }
    }
    Parsed { tag, dbg, cfg_text, hist, hist_str: t[3..].join(" ") }
}

/// Coordinates a case can touch: mapped keys and history coordinates on row 0; defined virtual keys
/// and history coordinates on row 1.
pub fn universe(c: &cfg::Cfg, hist: &[HEv]) -> (Vec<u16>, Vec<u16>) {
    let mut r0: Vec<u16> = c.mapped_keys.iter().map(|o| u16::from(*o)).collect();
    let mut r1: Vec<u16> = vec![];
    for e in hist {
        match e {
            HEv::Press(r, y) | HEv::Release(r, y) => {
                if *y < 767 {
                    if *r == 0 {
                        r0.push(*y)
                    } else if *r == 1 {
                        r1.push(*y)
                    }
                }
            }
            _ => {}
        }
    }
    for v in c.fake_keys.values() {
        r1.push(*v as u16);
    }
    r0.sort();
    r0.dedup();
    r1.sort();
    r1.dedup();
    (r0, r1)
}

pub fn serialise_cfg(c: &cfg::Cfg, hist: &[HEv]) -> (String, Ser) {
    let (r0, r1) = universe(c, hist);
    let mut ser = Ser::new(r0.clone());
    let layout = c.layout.b();
    let mut out: Vec<String> = vec![];
    out.push(format!(
        "tv2 {} dfl {} qth {} osd {} NL {}",
        c.options.trans_resolution_behavior_v2 as u8,
        c.options.delegate_to_first_layer as u8,
        layout.quick_tap_hold_timeout as u8,
        layout.oneshot.pause_input_processing_delay,
        layout.layers.len()
    ));
    for l in layout.layers.iter() {
        let mut ents: Vec<String> = vec![];
        let mut cnt = 0;
        for (r, ys) in [(0usize, &r0), (1usize, &r1)] {
            for y in ys.iter() {
                let a = &l[r][*y as usize];
                if !matches!(a, Action::Trans) {
                    cnt += 1;
                    ents.push(format!("{r} {y}"));
                    ser.action(a, &mut ents);
                }
            }
        }
        out.push(cnt.to_string());
        out.extend(ents);
    }
    let mut ents: Vec<String> = vec![];
    let mut cnt = 0;
    // `Src` indexes src_keys by the column whatever the row, so virtual-key columns are needed too
    let mut src_ys: Vec<u16> = r0.iter().chain(r1.iter()).copied().collect();
    src_ys.sort();
    src_ys.dedup();
    for y in src_ys.iter() {
        let a = &layout.src_keys[*y as usize];
        if !matches!(a, Action::NoOp) {
            cnt += 1;
            ents.push(y.to_string());
            ser.action(a, &mut ents);
        }
    }
    out.push(format!("SRC {cnt}"));
    out.extend(ents);
    if let Some(ch) = layout.chords_v2.as_ref() {
        // chords v2: per key (sorted) the chords it takes part in, in table order
        let mapping = &ch.chords().mapping;
        let mut keys: Vec<u16> = mapping.keys().copied().collect();
        keys.sort();
        out.push(format!("CHV2 {} {}", ch.verif_min_idle(), keys.len()));
        for k in keys {
            let cs = &mapping[&k].chords;
            out.push(format!("{k} {}", cs.len()));
            for c in cs.iter() {
                let mut e: Vec<String> = vec![];
                e.push(c.participating_keys.len().to_string());
                for pk in c.participating_keys.iter() {
                    e.push(pk.to_string());
                }
                e.push(c.pending_duration.to_string());
                e.push(match c.release_behaviour {
                    kanata_keyberon::chord::ReleaseBehaviour::OnFirstRelease => "0".into(),
                    kanata_keyberon::chord::ReleaseBehaviour::OnLastRelease => "1".into(),
                });
                e.push(c.disabled_layers.len().to_string());
                for d in c.disabled_layers.iter() {
                    e.push(d.to_string());
                }
                ser.action(c.action, &mut e);
                out.extend(e);
            }
        }
    }
    (out.join(" "), ser)
}

/// layout digest, extended by the chords-v2 state when chords v2 is configured
pub fn full_digest<'a, const C: usize, const R: usize, T: 'a + Copy + std::fmt::Debug>(
    layout: &kanata_keyberon::layout::Layout<'a, C, R, T>,
) -> String {
    match layout.chords_v2.as_ref() {
        Some(ch) => format!("{};v2={}", layout.verif_digest(), ch.verif_digest_chv2()),
        None => layout.verif_digest(),
    }
}

pub fn parse_cfg(text: &str) -> Result<cfg::Cfg, String> {
    cfg::new_from_str(text, Default::default()).map_err(|e| format!("{e:?}"))
}

pub fn expand(line: &str) -> String {
    let p = parse_line(line);
    match parse_cfg(&p.cfg_text) {
        Err(_) => format!("{}X {} REJECT {}", p.tag, p.dbg as u8, p.hist_str),
        Ok(c) => {
            let (s, _) = serialise_cfg(&c, &p.hist);
            format!("{}X {} {} {}", p.tag, p.dbg as u8, s, p.hist_str)
        }
    }
}

fn fmt_keys(v: &[u16]) -> String {
    if v.is_empty() {
        "-".into()
    } else {
        v.iter().map(|k| k.to_string()).collect::<Vec<_>>().join(",")
    }
}

/// Runs the bare keyberon layout. Trace items: `@<tick> K<keys> [cp<id>|cr<id>]`, emitted whenever
/// the key-code list changes or a custom event is returned; then `D <digest>`.
pub fn eval(line: &str) -> String {
    let p = parse_line(line);
    let mut c = match parse_cfg(&p.cfg_text) {
        Err(_) => return "rej".into(),
        Ok(c) => c,
    };
    let (_, mut ser) = serialise_cfg(&c, &p.hist);
    let layout = c.layout.bm();
    let mut out: Vec<String> = vec![];
    let mut prev: Vec<u16> = vec![];
    let mut tick: u64 = 0;
    for e in &p.hist {
        match e {
            HEv::Press(r, y) => layout.event(Event::Press(*r, *y)),
            HEv::Release(r, y) => layout.event(Event::Release(*r, *y)),
            HEv::Tick(n) => {
                for _ in 0..*n {
                    tick += 1;
                    let ce = layout.tick();
                    let keys: Vec<u16> = layout.keycodes().map(|k| k as u16).collect();
                    let cs = match ce {
                        CustomEvent::NoEvent => String::new(),
                        CustomEvent::Press(c) => format!(" cp{}", ser.custom_id(c)),
                        CustomEvent::Release(c) => format!(" cr{}", ser.custom_id(c)),
                    };
                    if keys != prev || !cs.is_empty() {
                        out.push(format!("@{tick} K{}{}", fmt_keys(&keys), cs));
                        prev = keys;
                    }
                    if p.dbg {
                        out.push(format!("#{tick} {}", full_digest(layout)));
                    }
                }
            }
        }
    }
    out.push(format!("D {}", full_digest(layout)));
    out.join(" ")
}
