//! C20: zippychord. Generates dictionaries and key histories, renders them as a kanata
//! configuration plus a zippy dictionary file, drives the REAL `Kanata` (handle_input_event /
//! tick_ms, simulated output sink) and prints the OS event trace.  A second family (`ssm`) drives
//! the real `SubsetMap` directly.
//!
//! Case line formats (all tokens separated by one space):
//!   C20 zch we <n> dl <n> ss <0|1|2> pn <-|n {kind code}*> D <nlines> {L <nchords> {<nkeys> code*}* O <nouts> {kind code}*}* H <nev> {p c | r c | t n}*
//!   C20 ssm I <nins> {<nkeys> k* <val>}* Q <nq> {<nkeys> k*}*
//!   C20 zcw <same fields as zch>   -- the same dictionary under `(defsrc lalt)(deflayer base (caps-word 2000))`:
//!       key 56 (lalt) in the history switches caps-word on.  Outside the Lean model (answered
//!       `unsupported :: TRACE <OS trace>`); judged by the model-free oracle of runner/props.py.
//! Result format:
//!   zch: `rej dup` | the OS trace `t<ticks> d<code> u<code> ...` (`-` when empty)
//!   ssm: one of `v<val>`, `sub`, `no` per query, then `e<0|1>` (is_empty)
use crate::rng::Rng;
use kanata_parser::keys::{str_to_oscode, OsCode};
use kanata_parser::subset::{GetOrIsSubsetOfKnownKey, SubsetMap};
use kanata_state_machine::oskbd::{KeyEvent, KeyValue};
use kanata_state_machine::Kanata;
use rustc_hash::FxHashMap;
use std::sync::OnceLock;

pub const K_BSPC: u16 = 14;
pub const K_SPC: u16 = 57;
pub const K_LSFT: u16 = 42;
pub const K_RSFT: u16 = 54;
pub const K_RALT: u16 = 100;

/// characters that may be written into the dictionary file for a plain (lower-case) key
const PLAIN_CHARS: &str = "abcdefghijklmnopqrstuvwxyz0123456789.,;/-=[]'`";

struct Tables {
    /// key code -> the single character that names it in a zippy file
    code_to_char: FxHashMap<u16, char>,
    /// `KeyCode` debug name used by the simulated sink -> key code
    name_to_code: FxHashMap<String, u16>,
}

fn tables() -> &'static Tables {
    static T: OnceLock<Tables> = OnceLock::new();
    T.get_or_init(|| {
        let mut code_to_char = FxHashMap::default();
        for c in PLAIN_CHARS.chars() {
            let mut b = [0u8; 4];
            if let Some(o) = str_to_oscode(c.encode_utf8(&mut b)) {
                code_to_char.entry(u16::from(o)).or_insert(c);
            }
        }
        code_to_char.insert(K_SPC, ' ');
        code_to_char.insert(K_BSPC, '⌫');
        let mut name_to_code = FxHashMap::default();
        for code in 0u16..768 {
            if let Some(o) = OsCode::from_u16(code) {
                let kc = kanata_keyberon::key_code::KeyCode::from(o);
                name_to_code.entry(format!("{kc:?}")).or_insert(code);
            }
        }
        Tables { code_to_char, name_to_code }
    })
}

// ------------------------------------------------------------------------------------------ data
#[derive(Clone, Debug, PartialEq, Eq, Hash)]
pub struct Out {
    pub kind: u8, // 0 lower 1 upper 2 altgr 3 shift+altgr, +4 = no-erase
    pub code: u16,
}

#[derive(Clone, Debug)]
pub struct Line {
    pub chords: Vec<Vec<u16>>,
    pub outs: Vec<Out>,
}

#[derive(Clone, Debug)]
pub enum Ev {
    P(u16),
    R(u16),
    T(u32),
}

#[derive(Clone, Debug)]
pub struct Case {
    pub we: u16,
    pub dl: u16,
    pub ss: u8,
    pub pn: Option<Vec<Out>>,
    pub lines: Vec<Line>,
    pub hist: Vec<Ev>,
}

pub fn case_line(c: &Case) -> String {
    let mut t: Vec<String> = vec!["C20".into(), "zch".into()];
    t.push(format!("we {} dl {} ss {}", c.we, c.dl, c.ss));
    match &c.pn {
        None => t.push("pn -".into()),
        Some(p) => {
            t.push(format!("pn {}", p.len()));
            for o in p {
                t.push(format!("{} {}", o.kind, o.code));
            }
        }
    }
    t.push(format!("D {}", c.lines.len()));
    for l in &c.lines {
        t.push(format!("L {}", l.chords.len()));
        for ch in &l.chords {
            t.push(format!("{}", ch.len()));
            for k in ch {
                t.push(format!("{k}"));
            }
        }
        t.push(format!("O {}", l.outs.len()));
        for o in &l.outs {
            t.push(format!("{} {}", o.kind, o.code));
        }
    }
    t.push(format!("H {}", c.hist.len()));
    for e in &c.hist {
        t.push(match e {
            Ev::P(k) => format!("p {k}"),
            Ev::R(k) => format!("r {k}"),
            Ev::T(n) => format!("t {n}"),
        });
    }
    t.join(" ")
}

struct Toks<'a>(std::str::SplitWhitespace<'a>);
impl<'a> Toks<'a> {
    fn s(&mut self) -> &'a str {
        self.0.next().expect("token")
    }
    fn n(&mut self) -> u32 {
        self.s().parse().expect("number")
    }
    fn expect(&mut self, x: &str) {
        let t = self.s();
        assert!(t == x, "expected {x} got {t}");
    }
}

fn parse_case(t: &mut Toks) -> Case {
    t.expect("we");
    let we = t.n() as u16;
    t.expect("dl");
    let dl = t.n() as u16;
    t.expect("ss");
    let ss = t.n() as u8;
    t.expect("pn");
    let p = t.s();
    let pn = if p == "-" {
        None
    } else {
        let n: usize = p.parse().unwrap();
        Some((0..n).map(|_| Out { kind: t.n() as u8, code: t.n() as u16 }).collect())
    };
    t.expect("D");
    let nl = t.n();
    let mut lines = vec![];
    for _ in 0..nl {
        t.expect("L");
        let nc = t.n();
        let mut chords = vec![];
        for _ in 0..nc {
            let nk = t.n();
            chords.push((0..nk).map(|_| t.n() as u16).collect());
        }
        t.expect("O");
        let no = t.n();
        let outs = (0..no).map(|_| Out { kind: t.n() as u8, code: t.n() as u16 }).collect();
        lines.push(Line { chords, outs });
    }
    t.expect("H");
    let nh = t.n();
    let mut hist = vec![];
    for _ in 0..nh {
        let k = t.s();
        let v = t.n();
        hist.push(match k {
            "p" => Ev::P(v as u16),
            "r" => Ev::R(v as u16),
            "t" => Ev::T(v),
            _ => panic!("bad event kind {k}"),
        });
    }
    Case { we, dl, ss, pn, lines, hist }
}

// ------------------------------------------------------------------------------- rendering
/// Allocates private-use characters for outputs that need an `output-character-mappings` entry.
struct Mapper {
    /// rendered mapping text -> character
    by_text: Vec<(String, char)>,
}

impl Mapper {
    fn ch(&mut self, mapping: String) -> char {
        if let Some((_, c)) = self.by_text.iter().find(|(m, _)| *m == mapping) {
            return *c;
        }
        // Greek lower-case letters: not key names, not upper-case
        let c = char::from_u32(0x3b1 + self.by_text.len() as u32).unwrap();
        self.by_text.push((mapping, c));
        c
    }
}

fn key_name(code: u16) -> String {
    match code {
        K_SPC => "spc".into(),
        K_BSPC => "bspc".into(),
        _ => tables().code_to_char.get(&code).map(|c| c.to_string()).unwrap_or_else(|| panic!("harness-error: no name for key {code}")),
    }
}

fn chord_text(o: &Out) -> String {
    let pre = match o.kind & 3 {
        0 => "",
        1 => "S-",
        2 => "AG-",
        _ => "S-AG-",
    };
    format!("{pre}{}", key_name(o.code))
}

/// Renders an output list as the text of the dictionary's output column.
fn render_outs(outs: &[Out], m: &mut Mapper) -> String {
    let mut s = String::new();
    let mut i = 0;
    while i < outs.len() {
        let o = &outs[i];
        if o.kind >= 4 {
            // a run of no-erase outputs; followed by an erasable one it can be a single-output
            let mut j = i;
            while j < outs.len() && outs[j].kind >= 4 {
                j += 1;
            }
            let run = &outs[i..j];
            if j < outs.len() && (run.len() > 1 || run[0].code % 2 == 0) {
                let mut parts: Vec<String> = run.iter().map(chord_text).collect();
                parts.push(chord_text(&outs[j]));
                s.push(m.ch(format!("(single-output {})", parts.join(" "))));
                i = j + 1;
            } else {
                for r in run {
                    s.push(m.ch(format!("(no-erase {})", chord_text(r))));
                }
                i = j;
            }
            continue;
        }
        let plain = tables().code_to_char.get(&o.code).copied();
        match (o.kind, plain) {
            (0, Some(c)) => s.push(c),
            (1, Some(c)) if c.is_ascii_lowercase() => s.push(c.to_ascii_uppercase()),
            _ => s.push(m.ch(chord_text(o))),
        }
        i += 1;
    }
    s
}

fn render_chord(keys: &[u16]) -> String {
    let mut s = String::new();
    if keys.contains(&K_SPC) {
        s.push(' ');
    }
    for k in keys {
        if *k != K_SPC {
            s.push(*tables().code_to_char.get(k).unwrap_or_else(|| panic!("harness-error: no char for chord key {k}")));
        }
    }
    s
}

pub fn render(c: &Case) -> (String, String) {
    render_in(c, "(defsrc)(deflayer base)")
}

pub fn render_in(c: &Case, layer: &str) -> (String, String) {
    let mut m = Mapper { by_text: vec![] };
    let mut file = String::new();
    for l in &c.lines {
        let chords: Vec<String> = l.chords.iter().map(|k| render_chord(k)).collect();
        file.push_str(&chords.join(" "));
        file.push('\t');
        file.push_str(&render_outs(&l.outs, &mut m));
        file.push('\n');
    }
    let mut punc = String::new();
    if let Some(p) = &c.pn {
        let items: Vec<String> = p
            .iter()
            .map(|o| if o.kind == 0 { key_name(o.code) } else { m.ch(chord_text(o)).to_string() })
            .collect();
        punc = format!(" smart-space-punctuation ({})", items.join(" "));
    }
    let mut maps = String::new();
    if !m.by_text.is_empty() {
        let items: Vec<String> = m.by_text.iter().map(|(t, ch)| format!("{ch} {t}")).collect();
        maps = format!(" output-character-mappings ({})", items.join(" "));
    }
    let ss = ["none", "add-space-only", "full"][c.ss as usize];
    let cfg = format!(
        "{layer}(defzippy file on-first-press-chord-deadline {} idle-reactivate-time {} smart-space {}{}{})",
        c.dl, c.we, ss, maps, punc
    );
    (cfg, file)
}

// ------------------------------------------------------------------------------------ eval
fn trace_of(events: &[String]) -> String {
    let t = tables();
    let mut out: Vec<String> = vec![];
    for e in events {
        if let Some(ms) = e.strip_prefix("t:") {
            out.push(format!("t{}", ms.trim_end_matches("ms")));
        } else if let Some(n) = e.strip_prefix("out:↓") {
            out.push(format!("d{}", t.name_to_code.get(n).map(|c| c.to_string()).unwrap_or(format!("?{n}"))));
        } else if let Some(n) = e.strip_prefix("out:↑") {
            out.push(format!("u{}", t.name_to_code.get(n).map(|c| c.to_string()).unwrap_or(format!("?{n}"))));
        } else {
            out.push(format!("?{e}"));
        }
    }
    if out.is_empty() {
        "-".into()
    } else {
        out.join(" ")
    }
}

// ---------------------------------------------------------------- input-shape fingerprints
// Tags describing the SHAPE OF THE INPUT (dictionary + history), computed without looking at what
// the implementation did.  They are appended to the result after " #" (stripped again by the
// runner's `norm_impl` before the comparison with the model) and are what the records in
// KNOWN_FINDINGS.jsonl match on, so that a recorded defect is recognised by the situation that
// triggers it and every other violation still fails the check.

type KeySet = Vec<u16>;

fn keyset(keys: &[u16]) -> KeySet {
    let mut k = keys.to_vec();
    k.sort();
    k.dedup();
    k
}

fn is_subset(a: &[u16], b: &[u16]) -> bool {
    a.iter().all(|x| b.contains(x))
}

/// All chords of the tree: path of key sets -> output (implicit antecedents have an empty output).
fn tree(lines: &[Line]) -> Vec<(Vec<KeySet>, Vec<Out>)> {
    let mut nodes: Vec<(Vec<KeySet>, Vec<Out>)> = vec![];
    for l in lines {
        let path: Vec<KeySet> = l.chords.iter().map(|c| keyset(c)).collect();
        for j in 1..path.len() {
            if !nodes.iter().any(|(p, _)| p[..] == path[..j]) {
                nodes.push((path[..j].to_vec(), vec![]));
            }
        }
        if let Some(n) = nodes.iter_mut().find(|(p, _)| *p == path) {
            n.1 = l.outs.clone();
        } else {
            nodes.push((path, l.outs.clone()));
        }
    }
    nodes
}

/// Holds: maximal runs of presses of non-modifier keys (press order kept); a new hold starts with
/// the first press after a release.
fn holds(hist: &[Ev]) -> Vec<Vec<u16>> {
    let mut hs: Vec<Vec<u16>> = vec![];
    let mut released = true;
    for e in hist {
        match e {
            Ev::P(k) if ![K_LSFT, K_RSFT, K_RALT].contains(k) => {
                if released {
                    hs.push(vec![]);
                    released = false;
                }
                hs.last_mut().unwrap().push(*k);
            }
            Ev::R(k) if ![K_LSFT, K_RSFT, K_RALT].contains(k) => released = true,
            _ => {}
        }
    }
    hs
}

fn common_prefix(a: &[Out], b: &[Out]) -> usize {
    let mut n = 0;
    for (x, y) in a.iter().zip(b.iter()) {
        if x.code == K_BSPC || y.code == K_BSPC || x != y {
            break;
        }
        n += 1;
    }
    n
}

pub fn shape_tags(c: &Case) -> Vec<&'static str> {
    let nodes = tree(&c.lines);
    let root: Vec<&KeySet> = nodes.iter().filter(|(p, _)| p.len() == 1).map(|(p, _)| &p[0]).collect();
    let hs = holds(&c.hist);
    let sets: Vec<KeySet> = hs.iter().map(|h| keyset(h)).collect();
    let has_followups = |p: &Vec<KeySet>| nodes.iter().any(|(q, _)| q.len() == p.len() + 1 && q[..p.len()] == p[..]);
    let mut tags: Vec<&'static str> = vec![];
    let mut add = |t: &'static str| {
        if !tags.contains(&t) {
            tags.push(t)
        }
    };
    for (j, h) in hs.iter().enumerate() {
        // the hold performs a follow-up chord (depth >= 2) directly after the chords leading to it
        for (path, _) in &nodes {
            let d = path.len();
            if d >= 2 && path[d - 1] == sets[j] && j + 1 >= d && sets[j + 1 - d..j] == path[..d - 1] {
                for n in 1..h.len() {
                    let part = keyset(&h[..n]);
                    if !root.iter().any(|r| is_subset(&part, r)) {
                        add("followup-partial-press-in-no-top-level-chord");
                    }
                    if root.iter().any(|r| **r == part) {
                        add("followup-partial-press-is-top-level-chord");
                    }
                    if nodes.iter().any(|(q, _)| q.len() == d && q[..d - 1] == path[..d - 1] && q[d - 1] == part) {
                        add("followup-partial-press-is-another-followup");
                    }
                }
            }
        }
        // a top-level chord with an empty output (the first chord of a longer line) is performed
        // after an earlier hold performed a chord that has follow-ups
        if nodes.iter().any(|(p, o)| p.len() == 1 && p[0] == sets[j] && o.is_empty())
            && (0..j).any(|i| nodes.iter().any(|(p, _)| *p.last().unwrap() == sets[i] && has_followups(p)))
        {
            add("empty-output-chord-after-chord-with-followups");
        }
    }
    // Which chords the presses of the history select, in order ("activation sequence"): the
    // follow-up map of the last selected chord is consulted first, then the top-level chords; a
    // press that fits neither a follow-up nor a top-level chord, or a release after a press that
    // selected nothing, drops the follow-up context.  (Timing is ignored: this describes the input, not the outcome.)
    struct Act {
        hold: usize,
        last_press_of_hold: bool,
        via_followup: bool,
        outs: Vec<Out>,
    }
    let mut acts: Vec<Act> = vec![];
    {
        let mut ctx: Option<Vec<KeySet>> = None;
        for (j, h) in hs.iter().enumerate() {
            let mut last_was_chord = false;
            for n in 1..=h.len() {
                let part = keyset(&h[..n]);
                let mut found: Option<(Vec<KeySet>, bool)> = None;
                if let Some(p) = &ctx {
                    let mut q = p.clone();
                    q.push(part.clone());
                    if nodes.iter().any(|(x, _)| *x == q) {
                        found = Some((q, true));
                    }
                }
                if found.is_none() && nodes.iter().any(|(x, _)| x.len() == 1 && x[0] == part) {
                    found = Some((vec![part.clone()], false));
                }
                match found {
                    Some((q, via)) => {
                        let outs = nodes.iter().find(|(x, _)| *x == q).unwrap().1.clone();
                        acts.push(Act { hold: j, last_press_of_hold: n == h.len(), via_followup: via, outs });
                        ctx = if has_followups(&q) { Some(q) } else { None };
                        last_was_chord = true;
                    }
                    None => {
                        last_was_chord = false;
                        let in_followup = ctx.as_ref().map_or(false, |p| {
                            nodes.iter().any(|(x, _)| x.len() == p.len() + 1 && x[..p.len()] == p[..] && is_subset(&part, &x[p.len()]))
                        });
                        if !in_followup && !root.iter().any(|r| is_subset(&part, r)) {
                            ctx = None;
                            break;
                        }
                    }
                }
            }
            if !last_was_chord {
                ctx = None;
            }
        }
    }
    let shift = c.hist.iter().any(|e| matches!(e, Ev::P(k) if *k == K_LSFT || *k == K_RSFT));
    for i in 1..acts.len() {
        let (a, b) = (&acts[i - 1], &acts[i]);
        if b.hold == a.hold && b.via_followup {
            add("followup-selected-in-the-same-hold-as-its-antecedent");
        }
        // the implementation compares with the previous expansion when the new chord is selected in
        // the same hold or through the follow-up map
        if !(b.hold == a.hold || b.via_followup) {
            continue;
        }
        let cp = common_prefix(&a.outs, &b.outs);
        if cp == 0 {
            continue;
        }
        if shift && b.outs.len() > cp {
            add("shift-held-and-expansions-share-a-prefix");
        }
        if i + 1 < acts.len() && acts[i + 1].hold == b.hold {
            add("superseded-again-after-prefix-reuse");
        }
        // the shared prefix is no longer (completely) on screen: some backspace of the earlier
        // expansion deleted part of it, and re-typing only the rest of the new expansion after
        // `display_len - cp` backspaces does not give the new expansion
        // (the first keystroke of what is typed goes out under the user's shift, if held and if it
        // is the first character of the expansion)
        let type_on = |base: &mut Vec<(u8, u16)>, outs: &[Out], first_shifted: bool| {
            for (i, o) in outs.iter().enumerate() {
                if o.code == K_BSPC {
                    base.pop();
                } else if o.code == K_SPC {
                    base.push((0, o.code));
                } else {
                    base.push(((o.kind & 3) | if i == 0 && first_shifted { 1 } else { 0 }, o.code));
                }
            }
        };
        let pad: Vec<(u8, u16)> = vec![(9, 0); 8];
        let mut screen = pad.clone();
        type_on(&mut screen, &a.outs, shift);
        let dl: i32 = a.outs.iter().map(|o| if o.code == K_BSPC { -1 } else if o.kind >= 4 { 0 } else { 1 }).sum();
        for _ in 0..(dl - cp as i32).max(0) {
            screen.pop();
        }
        type_on(&mut screen, &b.outs[cp..], shift && cp == 0);
        let mut ideal = pad.clone();
        type_on(&mut ideal, &b.outs, shift);
        // (only a Backspace inside the earlier expansion can take the shared prefix off the screen;
        // a no-erase output in the prefix is the separate finding tagged below)
        if screen != ideal && a.outs.iter().any(|o| o.code == K_BSPC) {
            add("shared-prefix-deleted-by-backspace-of-earlier-expansion");
        }
        // the re-used prefix contains a no-erase output (dead key): the prefix is counted in
        // outputs but subtracted from a count of display characters
        if a.outs[..cp].iter().any(|o| o.kind >= 4) {
            add("reused-prefix-contains-no-erase-output");
        }
    }
    if c.ss == 2 {
        let pcodes: Vec<u16> = match &c.pn {
            None => vec![52, 51, 39],
            Some(p) => p.iter().map(|o| o.code).collect(),
        };
        let wants_space = |o: &Vec<Out>| o.last().map(|l| l.code != K_SPC && l.code != K_BSPC).unwrap_or(false);
        for (j, h) in hs.iter().enumerate() {
            // the press before this hold selected a chord that gets a smart space, and the hold
            // starts with a punctuation key and goes on to press or select more
            let after_activation = acts.iter().any(|a| a.hold + 1 == j && a.last_press_of_hold && wants_space(&a.outs));
            if j > 0 && after_activation && pcodes.contains(&h[0]) {
                let selects = acts.iter().any(|a| a.hold == j);
                if h.len() >= 2 || selects {
                    add("smart-space-then-chord-starting-with-punctuation");
                }
            }
        }
    }
    // a modifier is held while more than 10000 ticks pass without any key zippychord looks at
    {
        let mut mods_down: i32 = 0;
        let mut idle: u64 = 0;
        for e in &c.hist {
            match e {
                Ev::P(k) if [K_LSFT, K_RSFT, K_RALT].contains(k) => mods_down += 1,
                Ev::R(k) if [K_LSFT, K_RSFT, K_RALT].contains(k) => mods_down = (mods_down - 1).max(0),
                Ev::T(n) => {
                    idle += *n as u64;
                    if mods_down > 0 && idle > 10000 {
                        add("modifier-held-across-forced-reset");
                    }
                }
                _ => idle = 0,
            }
        }
    }
    for (p, o) in &nodes {
        if p.len() == 1 && o.is_empty() {
            for (q, _o2) in &nodes {
                if q.len() == 1 && q[0] != p[0] && is_subset(&q[0], &p[0]) && sets.iter().any(|s| is_subset(&p[0], s)) {
                    add("empty-output-chord-extends-another-chord");
                }
            }
        }
    }
    tags
}

fn eval_zch(t: &mut Toks) -> String {
    let c = parse_case(t);
    let res = eval_zch_case(&c);
    let tags = shape_tags(&c);
    if tags.is_empty() {
        res
    } else {
        format!("{res} #{}", tags.join(","))
    }
}

/// caps-word slice (family `zcw`): the real Kanata with a caps-word key; no Lean model of caps-word
fn eval_zcw(t: &mut Toks) -> String {
    let c = parse_case(t);
    let res = eval_zch_case_in(&c, "(defsrc lalt)(deflayer base (caps-word 2000))");
    if res.starts_with("rej") {
        res
    } else {
        format!("unsupported :: TRACE {res}")
    }
}

fn eval_zch_case(c: &Case) -> String {
    eval_zch_case_in(c, "(defsrc)(deflayer base)")
}

fn eval_zch_case_in(c: &Case, layer: &str) -> String {
    let (cfg, file) = render_in(&c, layer);
    let mut fc: FxHashMap<String, String> = Default::default();
    fc.insert("file".into(), file);
    // Kanata::new_from_str re-configures the process-global zippychord state (zch_configure ->
    // zchd_reset), so cases are independent of each other.
    let mut k = match Kanata::new_from_str(&cfg, fc) {
        Ok(k) => k,
        Err(e) => {
            let msg = format!("{e:?}");
            if msg.contains("duplicate input chord") {
                return "rej dup".into();
            }
            return format!("rej other {}", msg.replace('\n', " ").chars().take(200).collect::<String>());
        }
    };
    for e in &c.hist {
        match e {
            Ev::T(n) => k.tick_ms(*n as u128, &None).unwrap(),
            Ev::P(code) | Ev::R(code) => {
                let osc = OsCode::from_u16(*code).expect("valid key code");
                let value = if matches!(e, Ev::P(_)) { KeyValue::Press } else { KeyValue::Release };
                k.handle_input_event(&KeyEvent { code: osc, value }).unwrap();
            }
        }
    }
    trace_of(&k.kbd_out.outputs.events)
}

fn eval_ssm(t: &mut Toks) -> String {
    t.expect("I");
    let ni = t.n();
    let mut m: SubsetMap<u16, u32> = SubsetMap::ssm_new();
    for _ in 0..ni {
        let nk = t.n();
        let key: Vec<u16> = (0..nk).map(|_| t.n() as u16).collect();
        let v = t.n();
        m.ssm_insert_ksorted(&key, v);
    }
    t.expect("Q");
    let nq = t.n();
    let mut out = vec![];
    for _ in 0..nq {
        let nk = t.n();
        let key: Vec<u16> = (0..nk).map(|_| t.n() as u16).collect();
        out.push(match m.ssm_get_or_is_subset_ksorted(&key) {
            GetOrIsSubsetOfKnownKey::HasValue(v) => format!("v{v}"),
            GetOrIsSubsetOfKnownKey::IsSubset => "sub".to_string(),
            GetOrIsSubsetOfKnownKey::Neither => "no".to_string(),
        });
    }
    out.push(format!("e{}", m.is_empty() as u8));
    out.join(" ")
}

pub fn eval(line: &str) -> String {
    let mut t = Toks(line.split_whitespace());
    t.expect("C20");
    match t.s() {
        "zch" => eval_zch(&mut t),
        "zcw" => eval_zcw(&mut t),
        "ssm" => eval_ssm(&mut t),
        x => format!("harness-error unknown family {x}"),
    }
}

// ------------------------------------------------------------------------------------- gen
const CHORD_KEYS: [u16; 10] = [30, 48, 46, 32, 18, 2, 52, 51, 57, 39]; // a b c d e 1 . , spc ;
const TYPE_KEYS: [u16; 14] = [30, 48, 46, 32, 18, 2, 52, 51, 57, 39, 45, 21, 44, 20]; // + x y z t
const OUT_KEYS: [u16; 9] = [45, 21, 44, 30, 48, 2, 57, 52, 20]; // x y z a b 1 spc . t

fn permutations(xs: &[u16]) -> Vec<Vec<u16>> {
    if xs.len() <= 1 {
        return vec![xs.to_vec()];
    }
    let mut out = vec![];
    for i in 0..xs.len() {
        let mut rest = xs.to_vec();
        let x = rest.remove(i);
        for mut p in permutations(&rest) {
            p.insert(0, x);
            out.push(p);
        }
    }
    out
}

fn shuffle(r: &mut Rng, xs: &mut Vec<u16>) {
    for i in (1..xs.len()).rev() {
        let j = r.below(i as u64 + 1) as usize;
        xs.swap(i, j);
    }
}

fn subset(r: &mut Rng, pool: &[u16], n: usize) -> Vec<u16> {
    let mut p = pool.to_vec();
    shuffle(r, &mut p);
    p.truncate(n.min(pool.len()));
    p
}

/// Output column: mostly plain lower-case letters, some upper case, some mapped / no-erase /
/// backspace outputs when `rich`.
fn gen_outs(r: &mut Rng, rich: bool, base: Option<&Vec<Out>>) -> Vec<Out> {
    let mut o: Vec<Out> = vec![];
    if let Some(b) = base {
        // share a prefix with another entry's output (exercises the common-prefix logic)
        let n = r.range(0, b.len() as u64) as usize;
        o.extend(b[..n].iter().cloned());
    }
    let n = r.range(if o.is_empty() { 1 } else { 0 }, 4);
    for _ in 0..n {
        let code = *r.pick(&OUT_KEYS);
        let kind = if !rich {
            if r.chance(1, 5) { 1 } else { 0 }
        } else {
            match r.below(12) {
                0..=4 => 0,
                5..=6 => 1,
                7 => 2,
                8 => 3,
                9 => 4,
                10 => 5 + r.below(3) as u8,
                _ => 0,
            }
        };
        if rich && r.chance(1, 10) {
            o.push(Out { kind: 0, code: K_BSPC });
        } else {
            o.push(Out { kind, code });
        }
    }
    o
}

#[derive(Clone, Copy, PartialEq)]
enum DictKind {
    Basic,
    Overlap,
    Follow,
    Mixed,
}

fn gen_dict(r: &mut Rng, kind: DictKind, rich: bool) -> Vec<Line> {
    let mut lines: Vec<Line> = vec![];
    let pool: Vec<u16> = subset(r, &CHORD_KEYS, 6);
    match kind {
        DictKind::Basic => {
            // disjoint chords, no follow-ups
            let mut rest = pool.clone();
            let n = r.range(1, 3);
            for _ in 0..n {
                if rest.is_empty() {
                    break;
                }
                let sz = (r.range(1, 4) as usize).min(rest.len());
                let ch: Vec<u16> = rest.drain(..sz).collect();
                let outs = gen_outs(r, rich, None);
                lines.push(Line { chords: vec![ch], outs });
            }
        }
        DictKind::Overlap => {
            // a nest of chords that extend each other plus a sibling sharing keys
            let depth = r.range(2, 4) as usize;
            let mut cur: Vec<u16> = vec![];
            let mut pi = 0;
            for lvl in 0..depth {
                let add = if lvl == 0 { r.range(1, 2) } else { r.range(1, 2) } as usize;
                for _ in 0..add {
                    if pi < pool.len() {
                        cur.push(pool[pi]);
                        pi += 1;
                    }
                }
                let base = lines.last().map(|l: &Line| l.outs.clone());
                let share = r.chance(1, 2);
                let outs = gen_outs(r, rich, if share { base.as_ref() } else { None });
                lines.push(Line { chords: vec![cur.clone()], outs });
            }
            if r.chance(1, 2) && pi < pool.len() {
                let mut sib = vec![pool[0], pool[pi]];
                if r.chance(1, 2) && cur.len() > 1 {
                    sib.push(cur[1]);
                }
                sib.sort();
                sib.dedup();
                if !lines.iter().any(|l| {
                    let mut k = l.chords[0].clone();
                    k.sort();
                    k == sib
                }) {
                    lines.push(Line { chords: vec![sib], outs: gen_outs(r, rich, None) });
                }
            }
        }
        DictKind::Follow | DictKind::Mixed => {
            let n = r.range(2, 5);
            for _ in 0..n {
                // extend an existing line's chords with a follow-up, or start a new line
                if !lines.is_empty() && r.chance(2, 3) {
                    let b = r.pick(&lines).clone();
                    let mut chords = b.chords.clone();
                    if chords.len() >= 3 {
                        continue;
                    }
                    let sz = r.range(1, 2) as usize;
                    chords.push(subset(r, &pool, sz));
                    let share = r.chance(1, 2);
                    let outs = gen_outs(r, rich, if share { Some(&b.outs) } else { None });
                    lines.push(Line { chords, outs });
                } else {
                    let nch = if kind == DictKind::Follow { r.range(1, 3) } else { r.range(1, 2) } as usize;
                    let chords: Vec<Vec<u16>> = (0..nch)
                        .map(|_| {
                            let sz = r.range(1, 3) as usize;
                            subset(r, &pool, sz)
                        })
                        .collect();
                    lines.push(Line { chords, outs: gen_outs(r, rich, None) });
                }
            }
            if r.chance(1, 3) {
                shuffle_lines(r, &mut lines);
            }
        }
    }
    lines
}

fn shuffle_lines(r: &mut Rng, xs: &mut Vec<Line>) {
    for i in (1..xs.len()).rev() {
        let j = r.below(i as u64 + 1) as usize;
        xs.swap(i, j);
    }
}

struct HistOpts {
    mods: Vec<u16>,
    prefix_taps: Vec<u16>,
    idle: u32,
    gap: u32,
    last_gap: Option<u32>,
    release_last: bool,
    suffix: Vec<u16>,
}

/// The history that performs the chords `perms` (one permutation per chord of a line).
fn chain_hist(r: &mut Rng, perms: &[Vec<u16>], o: &HistOpts) -> Vec<Ev> {
    let mut h = vec![];
    for m in &o.mods {
        h.push(Ev::P(*m));
        h.push(Ev::T(r.range(1, 20) as u32));
    }
    for k in &o.prefix_taps {
        h.push(Ev::P(*k));
        h.push(Ev::T(r.range(1, 12) as u32));
        h.push(Ev::R(*k));
        h.push(Ev::T(r.range(1, 12) as u32));
    }
    if !o.prefix_taps.is_empty() {
        h.push(Ev::T(o.idle));
    }
    for (ci, p) in perms.iter().enumerate() {
        let last_chord = ci + 1 == perms.len();
        for (i, k) in p.iter().enumerate() {
            h.push(Ev::P(*k));
            if i + 1 < p.len() {
                let g = if i + 2 == p.len() && last_chord { o.last_gap.unwrap_or(o.gap) } else { o.gap };
                if g > 0 {
                    h.push(Ev::T(g));
                }
            }
        }
        h.push(Ev::T(r.range(1, 30) as u32));
        if !last_chord || o.release_last {
            let mut rel = p.clone();
            shuffle(r, &mut rel);
            for k in rel {
                h.push(Ev::R(k));
                if r.chance(1, 2) {
                    h.push(Ev::T(r.range(1, 5) as u32));
                }
            }
            h.push(Ev::T(r.range(5, 40) as u32));
        }
    }
    for k in &o.suffix {
        h.push(Ev::P(*k));
        h.push(Ev::T(r.range(1, 12) as u32));
        h.push(Ev::R(*k));
        h.push(Ev::T(r.range(1, 12) as u32));
    }
    h.push(Ev::T(30));
    h
}

fn gen_cfg(r: &mut Rng) -> (u16, u16, u8, Option<Vec<Out>>) {
    let we = *r.pick(&[0u16, 1, 5, 40, 500]);
    let dl = *r.pick(&[0u16, 1, 2, 3, 8, 50, 500]);
    let ss = r.below(3) as u8;
    let pn = if r.chance(2, 3) {
        None
    } else {
        let n = r.range(0, 3);
        Some((0..n).map(|_| Out { kind: if r.chance(1, 4) { 1 } else { 0 }, code: *r.pick(&[52u16, 51, 39, 2, 30]) }).collect())
    };
    (we, dl, ss, pn)
}

fn random_hist(r: &mut Rng, keys: &[u16], n: usize) -> Vec<Ev> {
    let mut h = vec![];
    let mut held: Vec<u16> = vec![];
    for _ in 0..n {
        match r.below(10) {
            0..=3 => {
                let k = *r.pick(keys);
                if !held.contains(&k) || r.chance(1, 30) {
                    held.push(k);
                    h.push(Ev::P(k));
                }
            }
            4..=6 => {
                if !held.is_empty() {
                    let i = r.below(held.len() as u64) as usize;
                    let k = held.remove(i);
                    h.push(Ev::R(k));
                } else if r.chance(1, 30) {
                    h.push(Ev::R(*r.pick(keys)));
                }
            }
            _ => {
                h.push(Ev::T(*r.pick(&[1u32, 1, 2, 3, 5, 10, 40, 60, 510])));
            }
        }
        // the layout queue is short: never leave many events unprocessed
        if h.len() % 6 == 5 {
            h.push(Ev::T(3));
        }
    }
    if r.chance(4, 5) {
        held.reverse();
        for k in held {
            h.push(Ev::R(k));
        }
    }
    h.push(Ev::T(40));
    h
}

fn gen_ssm(r: &mut Rng, exhaustive: bool) -> Vec<String> {
    let mut out = vec![];
    let universe: [u16; 4] = [1, 2, 3, 5];
    let subsets: Vec<Vec<u16>> = (0u32..16)
        .map(|m| universe.iter().enumerate().filter(|(i, _)| m & (1 << i) != 0).map(|(_, k)| *k).collect())
        .collect();
    let all_q: String = {
        let mut t = format!("Q {}", subsets.len());
        for s in &subsets {
            t.push_str(&format!(" {}", s.len()));
            for k in s {
                t.push_str(&format!(" {k}"));
            }
        }
        t
    };
    let mut push = |ins: &[(Vec<u16>, u32)]| {
        let mut t = format!("C20 ssm I {}", ins.len());
        for (k, v) in ins {
            t.push_str(&format!(" {}", k.len()));
            for x in k {
                t.push_str(&format!(" {x}"));
            }
            t.push_str(&format!(" {v}"));
        }
        out.push(format!("{t} {all_q}"));
    };
    // every sequence of up to two (thorough: three) insertions of subsets of a 4-key universe,
    // all 16 queries
    push(&[]);
    for a in &subsets {
        push(&[(a.clone(), 1)]);
        for b in &subsets {
            push(&[(a.clone(), 1), (b.clone(), 2)]);
            if exhaustive {
                for c in &subsets {
                    push(&[(a.clone(), 1), (b.clone(), 2), (c.clone(), 3)]);
                }
            }
        }
    }
    let n = if exhaustive { 300 } else { 120 };
    for _ in 0..n {
        let k = r.range(0, 6);
        let ins: Vec<(Vec<u16>, u32)> = (0..k).map(|i| (r.pick(&subsets).clone(), i as u32 + 1)).collect();
        push(&ins);
    }
    out
}

pub fn gen(tier: &str, seed: u64) -> Vec<String> {
    let mut r = Rng::new(seed ^ 0xC20);
    let thorough = tier == "thorough";
    let mut out: Vec<String> = vec![];
    let mods_sets: [&[u16]; 6] = [&[], &[K_LSFT], &[K_RSFT], &[K_RALT], &[K_LSFT, K_RALT], &[K_LSFT, K_RSFT]];

    // A. every entry x every permutation of its last chord x modifiers, over generated dictionaries
    let n_dicts = if thorough { 9000 } else { 5000 };
    for di in 0..n_dicts {
        let kind = match di % 4 {
            0 => DictKind::Basic,
            1 => DictKind::Overlap,
            2 => DictKind::Follow,
            _ => DictKind::Mixed,
        };
        let rich = di % 3 == 2;
        let lines = gen_dict(&mut r, kind, rich);
        if lines.is_empty() {
            continue;
        }
        let (we, dl, ss, pn) = gen_cfg(&mut r);
        for l in &lines {
            let mut last = l.chords.last().unwrap().clone();
            last.sort();
            last.dedup();
            let mut perms = permutations(&last);
            if perms.len() > 6 && !thorough {
                // quick tier: a rotating sample of the 24 orders; thorough: all of them
                let keep = 6;
                let off = r.below(perms.len() as u64) as usize;
                perms = (0..keep).map(|i| perms[(off + i * 5) % perms.len()].clone()).collect();
            }
            for (pi, p) in perms.iter().enumerate() {
                let mods = mods_sets[(pi + di) % if thorough { 6 } else { 4 }].to_vec();
                let mut chain: Vec<Vec<u16>> = vec![];
                for c in &l.chords[..l.chords.len() - 1] {
                    let mut c = c.clone();
                    c.sort();
                    c.dedup();
                    shuffle(&mut r, &mut c);
                    chain.push(c);
                }
                chain.push(p.clone());
                let n = p.len() as u32;
                // gaps: inside the deadline, with the boundary cases "last press exactly at / one
                // before / one after the deadline"
                let (gap, last_gap) = match r.below(6) {
                    0 => (0, None),
                    1 => (1, None),
                    2 if dl > 1 && n > 1 => (1, Some((dl as u32).saturating_sub(n - 1).max(1))),
                    3 if dl > 1 && n > 1 => (1, Some((dl as u32 + 1).saturating_sub(n - 1).max(1))),
                    4 if dl > 1 && n > 1 => (1, Some((dl as u32 + 2).saturating_sub(n - 1).max(1))),
                    _ => (r.range(0, 3) as u32, None),
                };
                let prefix_taps: Vec<u16> = if r.chance(1, 3) { (0..r.range(1, 3)).map(|_| *r.pick(&TYPE_KEYS)).collect() } else { vec![] };
                let idle = match r.below(4) {
                    0 => we as u32,
                    1 => (we as u32).saturating_sub(2),
                    _ => we as u32 + r.range(1, 30) as u32,
                };
                let suffix: Vec<u16> = if r.chance(2, 3) { (0..r.range(1, 3)).map(|_| *r.pick(&TYPE_KEYS)).collect() } else { vec![] };
                let o = HistOpts { mods, prefix_taps, idle, gap, last_gap, release_last: suffix.len() > 0 || r.chance(3, 4), suffix };
                let hist = chain_hist(&mut r, &chain, &o);
                out.push(case_line(&Case { we, dl, ss, pn: pn.clone(), lines: lines.clone(), hist }));
            }
        }
        // B. two chords of the same dictionary one after the other (further typing that forms chords)
        for _ in 0..2 {
            let l1 = r.pick(&lines).clone();
            let l2 = r.pick(&lines).clone();
            let mut hist = vec![];
            for l in [&l1, &l2] {
                let chain: Vec<Vec<u16>> = l.chords.iter().map(|c| { let mut c = c.clone(); c.sort(); c.dedup(); shuffle(&mut r, &mut c); c }).collect();
                let o = HistOpts { mods: vec![], prefix_taps: vec![], idle: 0, gap: r.range(0, 2) as u32, last_gap: None, release_last: true, suffix: vec![] };
                let mut h = chain_hist(&mut r, &chain, &o);
                h.pop();
                hist.extend(h);
            }
            hist.push(Ev::T(30));
            out.push(case_line(&Case { we, dl: if dl < 8 { 50 } else { dl }, ss, pn: pn.clone(), lines: lines.clone(), hist }));
        }
        // C. random histories over the dictionary's keys (model/implementation correspondence;
        // the specification speaks when no chord is possible or the history happens to be a chain)
        let mut keys: Vec<u16> = lines.iter().flat_map(|l| l.chords.iter().flatten().copied()).collect();
        keys.push(*r.pick(&TYPE_KEYS));
        keys.push(*r.pick(&[K_LSFT, K_RSFT, K_RALT, 52, 51, 14, 29]));
        keys.sort();
        keys.dedup();
        for _ in 0..(if thorough { 8 } else { 5 }) {
            let n = r.range(4, 30) as usize;
            let hist = random_hist(&mut r, &keys, n);
            out.push(case_line(&Case { we, dl, ss, pn: pn.clone(), lines: lines.clone(), hist }));
        }
        // D. plain typing of keys that are in no chord
        {
            let free: Vec<u16> = TYPE_KEYS.iter().copied().filter(|k| !keys.contains(k)).collect();
            if !free.is_empty() {
                let mut all = free.clone();
                all.push(K_LSFT);
                let n = r.range(4, 20) as usize;
                let hist = random_hist(&mut r, &all, n);
                out.push(case_line(&Case { we, dl, ss, pn: pn.clone(), lines: lines.clone(), hist }));
            }
        }
    }
    // E. long idle periods around the forced state reset (10000 ticks) and the re-enable timer
    for t in [9990u32, 9999, 10000, 10001, 10002, 10010] {
        let lines = vec![
            Line { chords: vec![vec![30, 48]], outs: vec![Out { kind: 0, code: 45 }, Out { kind: 1, code: 21 }] },
            Line { chords: vec![vec![30, 48], vec![46]], outs: vec![Out { kind: 0, code: 44 }] },
        ];
        for variant in 0..3 {
            let hist = match variant {
                0 => vec![Ev::P(30), Ev::P(48), Ev::T(5), Ev::R(30), Ev::R(48), Ev::T(t), Ev::P(46), Ev::T(5), Ev::R(46), Ev::T(5)],
                1 => vec![Ev::P(30), Ev::T(t), Ev::P(48), Ev::T(5), Ev::R(30), Ev::R(48), Ev::T(5)],
                _ => vec![Ev::P(K_LSFT), Ev::T(t), Ev::P(30), Ev::P(48), Ev::T(5), Ev::R(30), Ev::R(48), Ev::T(5)],
            };
            out.push(case_line(&Case { we: 500, dl: 0, ss: 2, pn: None, lines: lines.clone(), hist }));
        }
    }
    // F. SubsetMap directly
    out.extend(gen_ssm(&mut r, thorough));
    // G. a key typed under shift AND altgr right after a smart space was sent (zch_press_key: the
    // punctuation lookup with the key classified `ShiftAltGr`, and its three neighbours), with
    // punctuation lists that do and do not hold that form of the key; modifiers pressed before or
    // after the chord; both smart-space modes
    {
        let lines = vec![Line { chords: vec![vec![30, 48]], outs: vec![Out { kind: 0, code: 45 }] }];
        for mods in [vec![K_LSFT, K_RALT], vec![K_RALT, K_RSFT], vec![K_RALT], vec![K_LSFT]] {
            for pn in [None, Some(vec![Out { kind: 3, code: 52 }]), Some(vec![Out { kind: 0, code: 52 }, Out { kind: 2, code: 52 }]), Some(vec![Out { kind: 1, code: 52 }, Out { kind: 3, code: 30 }])] {
                for ss in [1u8, 2] {
                    for key in [52u16, 30] {
                        for mods_first in [false, true] {
                            let mut hist = vec![];
                            let press_mods = |h: &mut Vec<Ev>| {
                                for m in &mods {
                                    h.push(Ev::P(*m));
                                    h.push(Ev::T(2));
                                }
                            };
                            if mods_first {
                                press_mods(&mut hist);
                            }
                            hist.extend([Ev::P(30), Ev::P(48), Ev::T(5), Ev::R(30), Ev::R(48), Ev::T(5)]);
                            if !mods_first {
                                press_mods(&mut hist);
                            }
                            hist.extend([Ev::P(key), Ev::T(3), Ev::R(key), Ev::T(3)]);
                            for m in mods.iter().rev() {
                                hist.push(Ev::R(*m));
                                hist.push(Ev::T(2));
                            }
                            hist.push(Ev::T(30));
                            out.push(case_line(&Case { we: 40, dl: 50, ss, pn: pn.clone(), lines: lines.clone(), hist }));
                        }
                    }
                }
            }
        }
    }
    // H. a chord superseded in the same hold by a longer chord whose expansion shares a prefix that
    // contains a no-erase output (dead key): at the end of the shared prefix, inside it, and as a
    // single-output group (remark R1; judged by the dead-key reading of runner/props.py)
    {
        let plain: [u16; 8] = [35, 18, 38, 24, 30, 45, 21, 44]; // h e l o a x y z
        let dead: [u16; 3] = [41, 40, 13]; // ` ' =
        for i in 0..(if thorough { 60 } else { 24 }) {
            let keys = subset(&mut r, &CHORD_KEYS[..6], 3);
            let dk = Out { kind: 4 + (i % 2) as u8, code: dead[i % 3] };
            let mut prefix: Vec<Out> = (0..r.range(0, 2)).map(|_| Out { kind: 0, code: *r.pick(&plain) }).collect();
            prefix.push(dk);
            if i % 3 == 1 {
                // the dead key inside the shared prefix
                prefix.push(Out { kind: 0, code: *r.pick(&plain) });
            }
            let a0 = *r.pick(&plain);
            let b0 = *plain.iter().find(|k| **k != a0).unwrap();
            let mut oa = prefix.clone();
            oa.push(Out { kind: 0, code: a0 });
            oa.extend((0..r.range(0, 2)).map(|_| Out { kind: 0, code: *r.pick(&plain) }));
            let mut ob = prefix.clone();
            ob.push(Out { kind: 0, code: b0 });
            ob.extend((0..r.range(0, 2)).map(|_| Out { kind: 0, code: *r.pick(&plain) }));
            let lines = vec![
                Line { chords: vec![keys[..2].to_vec()], outs: oa },
                Line { chords: vec![keys.clone()], outs: ob },
            ];
            let mut sorted = keys.clone();
            sorted.sort();
            for p in permutations(&sorted) {
                let mut hist = vec![];
                for k in &p {
                    hist.push(Ev::P(*k));
                    hist.push(Ev::T(r.range(1, 4) as u32));
                }
                hist.push(Ev::T(30));
                out.push(case_line(&Case { we: 500, dl: 500, ss: 0, pn: None, lines: lines.clone(), hist }));
            }
        }
    }
    // I. caps-word slice (family zcw, remark R2): caps-word is switched on by a tap of lalt, then
    // one dictionary line is performed; expansions with capitals at the start and inside; chords
    // of letters (caps-word holds shift while they are down) and of digits (it does not)
    {
        let letters: [u16; 5] = [30, 48, 46, 32, 18];
        let digits: [u16; 4] = [2, 3, 4, 5];
        let outk: [u16; 6] = [45, 21, 44, 30, 48, 20];
        for i in 0..(if thorough { 80 } else { 30 }) {
            let mut word = |r: &mut Rng, cap_first: bool| -> Vec<Out> {
                let n = r.range(1, 4) as usize;
                (0..n).map(|j| Out { kind: if (j == 0 && cap_first) || r.chance(1, 4) { 1 } else { 0 }, code: *r.pick(&outk) }).collect()
            };
            let first: Vec<u16> = if i % 2 == 0 { subset(&mut r, &letters, 2) } else { subset(&mut r, &digits, 2) };
            let follow: Vec<u16> = if i % 4 < 2 { vec![*r.pick(&digits[2..])] } else { vec![*r.pick(&letters)] };
            let follow = if first.contains(&follow[0]) { vec![5] } else { follow };
            let lines = vec![
                Line { chords: vec![first.clone()], outs: word(&mut r, i % 3 == 0) },
                Line { chords: vec![first.clone(), follow.clone()], outs: word(&mut r, true) },
            ];
            for (li, l) in lines.iter().enumerate() {
                let mut hist = vec![Ev::P(56), Ev::T(3), Ev::R(56), Ev::T(5)];
                for (ci, ch) in l.chords.iter().enumerate() {
                    let mut c = ch.clone();
                    shuffle(&mut r, &mut c);
                    for k in &c {
                        hist.push(Ev::P(*k));
                        hist.push(Ev::T(r.range(1, 4) as u32));
                    }
                    hist.push(Ev::T(5));
                    if ci + 1 < l.chords.len() || (i + li) % 2 == 0 {
                        for k in &c {
                            hist.push(Ev::R(*k));
                            hist.push(Ev::T(2));
                        }
                        hist.push(Ev::T(5));
                    }
                }
                hist.push(Ev::T(30));
                let line = case_line(&Case { we: 500, dl: 500, ss: 0, pn: None, lines: lines.clone(), hist });
                out.push(line.replacen("C20 zch ", "C20 zcw ", 1));
            }
        }
    }
    // J. partial release, then extend (seeded change C20g): a tower of entries K1 < K2 (< K3); the
    // keys of K1 are pressed, some but not all of them are released, then the missing keys of the
    // next entry and the released ones are pressed in any order; expansions with and without a
    // shared prefix (judged by runner/props.py _c20_partial_release_oracle where the Lean
    // specification is silent)
    {
        let outk: [u16; 8] = [36, 24, 37, 18, 22, 49, 34, 38]; // j o k e u n g l
        for i in 0..(if thorough { 400 } else { 150 }) {
            let depth = 2 + (i % 3 == 2) as usize;
            let keys = subset(&mut r, &CHORD_KEYS[..7], 2 + depth - 1 + (i % 2));
            let mut lines: Vec<Line> = vec![];
            let mut sizes = vec![2usize];
            for d in 1..depth {
                let prev = sizes[d - 1];
                sizes.push((prev + 1 + (i % 2) * (d == depth - 1) as usize).min(keys.len()));
            }
            sizes.dedup();
            for (li, sz) in sizes.iter().enumerate() {
                let mut o: Vec<Out> = vec![];
                if li > 0 && i % 4 < 2 {
                    let b = &lines[li - 1].outs;
                    o.extend(b[..r.range(1, b.len() as u64) as usize].iter().cloned());
                }
                for _ in 0..r.range(1, 4) {
                    o.push(Out { kind: if r.chance(1, 6) { 1 } else { 0 }, code: *r.pick(&outk) });
                }
                lines.push(Line { chords: vec![keys[..*sz].to_vec()], outs: o });
            }
            let mut hist = vec![];
            let mut held: Vec<u16> = vec![];
            for (li, sz) in sizes.iter().enumerate() {
                let mut to_press: Vec<u16> = keys[..*sz].iter().copied().filter(|k| !held.contains(k)).collect();
                shuffle(&mut r, &mut to_press);
                for k in to_press {
                    hist.push(Ev::P(k));
                    held.push(k);
                    hist.push(Ev::T(r.range(1, 3) as u32));
                }
                if li + 1 < sizes.len() {
                    // release some, not all
                    let mut rel = held.clone();
                    shuffle(&mut r, &mut rel);
                    rel.truncate(r.range(1, held.len() as u64 - 1) as usize);
                    for k in rel {
                        hist.push(Ev::R(k));
                        held.retain(|x| *x != k);
                        hist.push(Ev::T(r.range(1, 3) as u32));
                    }
                }
            }
            if i % 5 < 2 {
                for k in held.clone() {
                    hist.push(Ev::R(k));
                    hist.push(Ev::T(1));
                }
            }
            hist.push(Ev::T(30));
            out.push(case_line(&Case { we: 500, dl: *r.pick(&[0u16, 500]), ss: 0, pn: None, lines, hist }));
        }
    }
    out
}
