//! Whole-grammar configurations WITH `defchordsv2` (layout level: LALL, kanata level: KALL, C09):
//! `cfggen::gen_full_cfg_opt` plus a chords-v2 table over the same physical keys, so that chords v2
//! meets every action kind (tap-hold, one-shot, chords v1, macros, layers, virtual keys, custom
//! actions) both as neighbour on the layers and as chord action.
use crate::cfggen::*;
use crate::rng::Rng;

/// A chord action: mostly plain keys (attributable), sometimes anything the grammar has that is
/// allowed inside `defchordsv2` (no transparent action).
fn chord_action(r: &mut Rng, ctx: &Ctx) -> String {
    for _ in 0..8 {
        let a = match r.below(10) {
            0..=4 => (*r.pick(&["x", "y", "z", "1", "2", "S-q", "lsft", "lctl"])).to_string(),
            5 => format!("(multi {} {})", r.pick(&["lsft", "lctl", "ralt"]), r.pick(&["q", "w", "x"])),
            6 => format!("(one-shot {} {})", r.pick(&TIMES), r.pick(&["lsft", "lctl"])),
            7 => format!("(layer-while-held l{})", r.below(ctx.nlayers as u64)),
            _ => gen_action(r, ctx, 1, true),
        };
        // `_`, `use-defsrc` on their own or inside are refused by the parser here
        if !a.contains('_') && !a.contains("use-defsrc") && !a.contains("(chord ") && !a.contains("on-idle-fakekey") {
            return a;
        }
    }
    "x".into()
}

/// (text, physical key codes)
pub fn gen_full_cfg_chv2(r: &mut Rng, allow_custom: bool) -> (String, Vec<u16>) {
    // two different on-idle entries due in the same tick fire in the iteration order of kanata's hash
    // set, which the model does not reproduce (Model/Kanata.lean header): at most one such action
    let (text, keys) = loop {
        let (t, k) = gen_full_cfg_opt(r, allow_custom, false);
        if t.matches("on-idle-fakekey").count() <= 1 {
            break (t, k);
        }
    };
    // the grammar generator's own choices, read back from its text
    let nlayers = text.matches("(deflayer ").count();
    let nvirt = match text.lines().find(|l| l.starts_with("(defvirtualkeys")) {
        Some(l) => (0..4).filter(|i| l.contains(&format!(" v{i} "))).count(),
        None => 0,
    };
    let nkeys = text
        .lines()
        .find(|l| l.starts_with("(defsrc"))
        .map(|l| l.trim_end_matches(')').split_whitespace().count() - 1)
        .unwrap_or(2);
    let ctx = Ctx { nlayers, nvirt, chord_groups: vec![], allow_waiting: true, allow_custom, latch_free: false };
    let mut text = if text.contains("concurrent-tap-hold yes") { text } else { text.replacen("(defcfg", "(defcfg concurrent-tap-hold yes", 1) };
    if r.chance(1, 2) {
        text = text.replacen("(defcfg", &format!("(defcfg chords-v2-min-idle {}", r.pick(&[5u32, 6, 20, 50])), 1);
    }
    let ks = &KEYS[..nkeys];
    let mut t = String::from("(defchordsv2\n");
    let mut seen: Vec<Vec<usize>> = vec![];
    let nchords = r.range(1, 4);
    for _ in 0..nchords {
        let sz = r.range(2, std::cmp::min(3, nkeys as u64)) as usize;
        let mut idx: Vec<usize> = vec![];
        while idx.len() < sz {
            let i = r.below(nkeys as u64) as usize;
            if !idx.contains(&i) {
                idx.push(i);
            }
        }
        idx.sort();
        if seen.contains(&idx) {
            continue;
        }
        seen.push(idx.clone());
        let names: Vec<&str> = idx.iter().map(|i| ks[*i]).collect();
        let dis = if nlayers > 1 && r.chance(1, 4) { format!("(l{})", r.below(nlayers as u64)) } else { "()".into() };
        t.push_str(&format!(
            " ({}) {} {} {} {}\n",
            names.join(" "),
            chord_action(r, &ctx),
            r.pick(&[5u32, 20, 50, 200]),
            r.pick(&["first-release", "all-released"]),
            dis
        ));
    }
    t.push_str(")\n");
    text.push_str(&t);
    (text, keys)
}
