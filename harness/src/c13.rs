//! C13: global overrides.  `L` cases build the table through the real parser
//! (`cfg::new_from_str(..).overrides`) and call the public `Overrides::override_keys` on a generated
//! key list with a fresh and with a carried-over `OverrideStates`; `P` cases drive a whole `Kanata`
//! (simulated output) tick by tick and report the OS events, `prev_keys`, the layout states and the
//! set of keys the OS holds after every tick.
use crate::rng::Rng;
use kanata_keyberon::key_code::KeyCode;
use kanata_keyberon::layout::State;
use kanata_parser::cfg;
use kanata_parser::cfg::{OverrideStates, Overrides};
use kanata_parser::keys::{str_to_oscode, OsCode};
use kanata_state_machine::oskbd::{KeyEvent, KeyValue};
use kanata_state_machine::Kanata;
use std::cell::RefCell;
use std::collections::HashMap;

pub const MODS: [&str; 8] = ["lctl", "lsft", "lalt", "lmet", "rctl", "rsft", "ralt", "rmet"];
pub const NONMODS: [&str; 8] = ["a", "b", "c", "d", "1", "2", "9", "spc"];

fn code(name: &str) -> u16 {
    u16::from(str_to_oscode(name).unwrap())
}

fn name_of(c: u16) -> &'static str {
    for n in MODS.iter().chain(NONMODS.iter()) {
        if code(n) == c {
            return n;
        }
    }
    panic!("harness: key code {c} not in universe")
}

/// The eight modifier codes, decided independently of kanata's tables (by name).
fn is_mod(c: u16) -> bool {
    MODS.iter().any(|m| code(m) == c)
}

type Raw = Vec<(Vec<u16>, Vec<u16>)>;

// ---------------------------------------------------------------- lateness (independent re-statement)

/// Some override's combination is among the keys, but one of its modifiers does not come before
/// an occurrence of its key.
fn late_mod(tbl: &Raw, ks: &[u16]) -> bool {
    for (ins, _) in tbl {
        let mods: Vec<u16> = ins.iter().copied().filter(|k| is_mod(*k)).collect();
        let nm: Vec<u16> = ins.iter().copied().filter(|k| !is_mod(*k)).collect();
        if nm.len() != 1 {
            continue;
        }
        let key = nm[0];
        if !ks.contains(&key) || !mods.iter().all(|m| ks.contains(m)) {
            continue;
        }
        for (i, k) in ks.iter().enumerate() {
            if *k == key && !mods.iter().all(|m| ks[..i].contains(m)) {
                return true;
            }
        }
    }
    false
}

// ---------------------------------------------------------------- case text

fn fmt_list(l: &[u16]) -> String {
    let mut s = format!("{}", l.len());
    for k in l {
        s.push_str(&format!(" {k}"));
    }
    s
}

fn fmt_table(t: &Raw) -> String {
    let mut s = format!("T {}", t.len());
    for (i, o) in t {
        s.push_str(&format!(" I {} O {}", fmt_list(i), fmt_list(o)));
    }
    s
}

fn l_line(mode: &str, t: &Raw, ks: &[u16], carry: &[u16]) -> String {
    format!("C13 {mode} {} K {} C {}", fmt_table(t), fmt_list(ks), fmt_list(carry))
}

#[derive(Clone, Debug)]
enum H {
    P(u16),
    R(u16),
    T(u32),
}

fn p_line(mode: &str, roa: bool, t: &Raw, h: &[H]) -> String {
    let mut s = format!("C13 {mode} R {} {} H {}", roa as u8, fmt_table(t), h.len());
    for x in h {
        match x {
            H::P(k) => s.push_str(&format!(" p {k}")),
            H::R(k) => s.push_str(&format!(" r {k}")),
            H::T(n) => s.push_str(&format!(" t {n}")),
        }
    }
    s
}

// ---------------------------------------------------------------- generators

fn subset<T: Copy>(xs: &[T], mask: u32) -> Vec<T> {
    xs.iter().enumerate().filter(|(i, _)| mask & (1 << i) != 0).map(|(_, x)| *x).collect()
}

fn shuffle<T>(r: &mut Rng, v: &mut Vec<T>) {
    for i in (1..v.len()).rev() {
        let j = r.below(i as u64 + 1) as usize;
        v.swap(i, j);
    }
}

/// all lists over `u` of length <= `maxlen`; without repetition, or with.
fn lists(u: &[u16], maxlen: usize, rep: bool) -> Vec<Vec<u16>> {
    let mut out: Vec<Vec<u16>> = vec![vec![]];
    let mut frontier: Vec<Vec<u16>> = vec![vec![]];
    for _ in 0..maxlen {
        let mut next = vec![];
        for l in &frontier {
            for k in u {
                if !rep && l.contains(k) {
                    continue;
                }
                let mut l2 = l.clone();
                l2.push(*k);
                next.push(l2);
            }
        }
        out.extend(next.iter().cloned());
        frontier = next;
    }
    out
}

fn table_keys(t: &Raw, with_outputs: bool) -> Vec<u16> {
    let mut u = vec![];
    for (i, o) in t {
        for k in i.iter().chain(if with_outputs { o.iter() } else { [].iter() }) {
            if !u.contains(k) {
                u.push(*k);
            }
        }
    }
    u
}

/// A structured random table: 1..=5 overrides over a small pool of modifiers and keys, biased
/// towards several overrides of the same key (nested and equally long modifier sets).
fn gen_table(r: &mut Rng, allow_odd: bool) -> Raw {
    let mods: Vec<u16> = MODS.iter().map(|m| code(m)).collect();
    let nms: Vec<u16> = NONMODS.iter().map(|m| code(m)).collect();
    let mut pool = mods.clone();
    shuffle(r, &mut pool);
    pool.truncate(r.range(1, 3) as usize);
    let mut keys = nms.clone();
    shuffle(r, &mut keys);
    let in_keys: Vec<u16> = keys[..r.range(1, 2) as usize].to_vec();
    let n = r.range(1, 5);
    let mut t = vec![];
    for _ in 0..n {
        let mut ins = subset(&pool, r.below(1 << pool.len()) as u32);
        if allow_odd && r.chance(1, 10) && !ins.is_empty() {
            let d = *r.pick(&ins);
            ins.push(d); // a modifier written twice
        }
        let key = *r.pick(&in_keys);
        let pos = r.below(ins.len() as u64 + 1) as usize;
        ins.insert(pos, key); // the non-modifier may be written anywhere in the list
        let mut outs = if r.chance(1, 2) { subset(&pool, r.below(1 << pool.len()) as u32) } else { subset(&mods, r.below(256) as u32 & r.below(256) as u32) };
        let okey = if r.chance(1, 4) { *r.pick(&in_keys) } else { *r.pick(&nms) };
        let pos = r.below(outs.len() as u64 + 1) as usize;
        outs.insert(pos, okey);
        t.push((ins, outs));
        if allow_odd && r.chance(1, 12) {
            let last = t.last().unwrap().clone();
            t.push(last); // the same override twice
        }
    }
    t
}

fn gen_history(r: &mut Rng, t: &Raw, consistent: bool, len: usize) -> Vec<H> {
    let mut u = table_keys(t, false);
    let extra_nm = code(*r.pick::<&str>(&NONMODS));
    if !u.contains(&extra_nm) {
        u.push(extra_nm);
    }
    if r.chance(1, 2) {
        let m = code(*r.pick::<&str>(&MODS));
        if !u.contains(&m) {
            u.push(m);
        }
    }
    let mut down: Vec<u16> = vec![];
    let mut h = vec![];
    for _ in 0..len {
        let press = if down.is_empty() { true } else if down.len() >= 5 { false } else { r.chance(3, 5) };
        if press {
            let cand: Vec<u16> = if consistent { u.iter().copied().filter(|k| !down.contains(k)).collect() } else { u.clone() };
            if cand.is_empty() {
                continue;
            }
            let k = *r.pick(&cand);
            h.push(H::P(k));
            if !down.contains(&k) {
                down.push(k);
            }
        } else {
            let k = if consistent || r.chance(4, 5) { *r.pick(&down) } else { *r.pick(&u) };
            h.push(H::R(k));
            down.retain(|x| *x != k);
        }
        let gap = match r.below(10) {
            0 => 0,
            1..=5 => 1,
            6..=7 => 2,
            8 => 3,
            _ => 12,
        };
        if gap > 0 {
            h.push(H::T(gap));
        }
    }
    // let go of everything and give the queue time to drain
    for k in down.clone() {
        h.push(H::R(k));
        if r.chance(1, 2) {
            h.push(H::T(1));
        }
    }
    h.push(H::T(len as u32 + 8));
    h
}

pub fn gen(tier: &str, seed: u64) -> Vec<String> {
    let mut r = Rng::new(seed ^ 0xC13);
    let thorough = tier == "thorough";
    let mut lines: Vec<String> = vec![];
    let push_l = |lines: &mut Vec<String>, t: &Raw, ks: &[u16], carry: &[u16]| {
        lines.push(l_line("L", t, ks, carry));
        if late_mod(t, ks) {
            // the recorded finding (a modifier after its key) must not hide a model/code divergence
            lines.push(l_line("LM", t, ks, carry));
        }
    };
    let a = code("a");
    let b = code("b");
    let lsft = code("lsft");
    let mods: Vec<u16> = MODS.iter().map(|m| code(m)).collect();
    let nms: Vec<u16> = NONMODS.iter().map(|m| code(m)).collect();

    // (0) the design-phase witness, on the list transformation and through the pipeline
    let w: Raw = vec![(vec![lsft, a], vec![b])];
    push_l(&mut lines, &w, &[lsft, a], &[]);
    push_l(&mut lines, &w, &[a, lsft], &[]);
    for roa in [false, true] {
        for h in [
            vec![H::P(lsft), H::T(2), H::P(a), H::T(2), H::R(a), H::T(2), H::R(lsft), H::T(3)],
            vec![H::P(a), H::T(2), H::P(lsft), H::T(2), H::R(lsft), H::T(2), H::R(a), H::T(3)],
        ] {
            lines.push(p_line("P", roa, &w, &h));
            lines.push(p_line("PM", roa, &w, &h));
        }
    }

    // (1) every subset of the 8 modifiers as input modifiers and as output modifiers of one override
    for mask in 0..256u32 {
        for side in 0..2 {
            let other = r.below(256) as u32 & r.below(256) as u32;
            let (im, om) = if side == 0 { (mask, other) } else { (other, mask) };
            let mut ins = subset(&mods, im);
            shuffle(&mut r, &mut ins);
            let pos = r.below(ins.len() as u64 + 1) as usize;
            ins.insert(pos, a);
            let mut outs = subset(&mods, om);
            let okey = *r.pick(&nms);
            outs.push(okey);
            let t: Raw = vec![(ins.clone(), outs)];
            let imods = subset(&mods, im);
            // modifiers first (in table order), then the key, plus an unrelated held key
            let mut ks = imods.clone();
            ks.push(a);
            push_l(&mut lines, &t, &ks, &[]);
            let mut ks2 = vec![code("d")];
            ks2.extend(imods.iter().rev());
            ks2.push(a);
            ks2.push(okey);
            push_l(&mut lines, &t, &ks2, &ks);
            // every order once in a while; one modifier missing; all eight held
            let mut ks3 = ks.clone();
            shuffle(&mut r, &mut ks3);
            push_l(&mut lines, &t, &ks3, &ks2);
            if !imods.is_empty() {
                let drop = *r.pick(&imods);
                let ks4: Vec<u16> = ks.iter().copied().filter(|k| *k != drop).collect();
                push_l(&mut lines, &t, &ks4, &ks);
            }
            let mut ks5 = mods.clone();
            ks5.push(a);
            push_l(&mut lines, &t, &ks5, &[]);
        }
    }

    // (2) exhaustive active lists up to length 4, every order, for a set of generated tables
    let n_tables = if thorough { 700 } else { 110 };
    for ti in 0..n_tables {
        let t = gen_table(&mut r, ti % 4 == 3);
        let mut u = table_keys(&t, false);
        // one output key, one outsider key and one outsider modifier, as far as there is room
        let cap = if thorough { 7 } else { 6 };
        for k in table_keys(&t, true).into_iter().chain([code("d"), code("rmet")]) {
            if u.len() < cap && !u.contains(&k) {
                u.push(k);
            }
        }
        for ks in lists(&u, 4, false) {
            let carry: Vec<u16> = if ks.len() % 2 == 0 { u.clone() } else { vec![] };
            push_l(&mut lines, &t, &ks, &carry);
        }
        // with repeated keys (keyberon's keycodes() can yield duplicates)
        let small: Vec<u16> = u.iter().copied().take(4).collect();
        for ks in lists(&small, if thorough { 4 } else { 3 }, true) {
            if has_dup(&ks) {
                push_l(&mut lines, &t, &ks, &[]);
            }
        }
    }

    // (3) random longer lists over the whole universe
    let n_rand = if thorough { 150000 } else { 10000 };
    for i in 0..n_rand {
        let t = gen_table(&mut r, i % 5 == 4);
        let mut u = table_keys(&t, true);
        u.push(*r.pick(&nms));
        u.push(*r.pick(&mods));
        let n = r.below(9) as usize;
        let ks: Vec<u16> = (0..n).map(|_| *r.pick(&u)).collect();
        let n = r.below(5) as usize;
        let carry: Vec<u16> = (0..n).map(|_| *r.pick(&u)).collect();
        push_l(&mut lines, &t, &ks, &carry);
    }

    // (4) tables `Override::try_new` refuses, and the empty table
    let bad: Vec<Raw> = vec![
        vec![(vec![lsft], vec![b])],
        vec![(vec![], vec![b])],
        vec![(vec![a, b], vec![b])],
        vec![(vec![lsft, a], vec![])],
        vec![(vec![lsft, a], vec![lsft])],
        vec![(vec![lsft, a], vec![a, b])],
        vec![(vec![a, a], vec![b])],
        vec![(vec![a], vec![b]), (vec![lsft], vec![a, b])],
        vec![(vec![a, b], vec![a, b])],
        vec![(vec![lsft], vec![])],
    ];
    for t in &bad {
        push_l(&mut lines, t, &[lsft, a], &[]);
        lines.push(p_line("P", false, t, &[H::P(a), H::T(2)]));
    }
    let empty: Raw = vec![];
    for ks in lists(&[lsft, a, b], 3, true) {
        push_l(&mut lines, &empty, &ks, &[a, lsft]);
    }

    // (5) the full pipeline: random press/release histories, release-on-activation on and off
    let n_pipe = if thorough { 40000 } else { 3000 };
    for i in 0..n_pipe {
        let t = if i % 9 == 0 { gen_table(&mut r, true) } else { gen_table(&mut r, false) };
        let consistent = i % 4 != 3;
        let len = r.range(2, if thorough { 16 } else { 10 }) as usize;
        let h = gen_history(&mut r, &t, consistent, len);
        let roa = i % 2 == 0;
        lines.push(p_line("P", roa, &t, &h));
        lines.push(p_line("PM", roa, &t, &h));
    }
    // a burst that overflows keyberon's 32-slot event queue
    if thorough {
        let mut h = vec![];
        for i in 0..40 {
            h.push(if i % 2 == 0 { H::P(a) } else { H::R(a) });
        }
        h.push(H::P(lsft));
        h.push(H::T(50));
        lines.push(p_line("PM", false, &w, &h));
    }
    lines
}

fn has_dup(l: &[u16]) -> bool {
    for i in 0..l.len() {
        if l[..i].contains(&l[i]) {
            return true;
        }
    }
    false
}

// ---------------------------------------------------------------- evaluation on the real code

struct Toks<'a> {
    t: Vec<&'a str>,
    i: usize,
}
impl<'a> Toks<'a> {
    fn next(&mut self) -> &'a str {
        let s = self.t[self.i];
        self.i += 1;
        s
    }
    fn num(&mut self) -> u64 {
        self.next().parse().expect("number token")
    }
    fn list(&mut self) -> Vec<u16> {
        let n = self.num();
        (0..n).map(|_| self.num() as u16).collect()
    }
    fn table(&mut self) -> Raw {
        assert_eq!(self.next(), "T");
        let n = self.num();
        (0..n)
            .map(|_| {
                assert_eq!(self.next(), "I");
                let i = self.list();
                assert_eq!(self.next(), "O");
                let o = self.list();
                (i, o)
            })
            .collect()
    }
}

fn overrides_text(t: &Raw) -> String {
    let mut s = String::from("(defoverrides");
    for (i, o) in t {
        let i: Vec<&str> = i.iter().map(|k| name_of(*k)).collect();
        let o: Vec<&str> = o.iter().map(|k| name_of(*k)).collect();
        s.push_str(&format!("\n  ({}) ({})", i.join(" "), o.join(" ")));
    }
    s.push_str(")\n");
    s
}

fn classify(msg: &str) -> String {
    // miette wraps the diagnostic text: compare on whitespace-normalised text
    let msg = msg.split_whitespace().collect::<Vec<_>>().join(" ");
    let what = if msg.contains("exactly one input non-modifier key; found none") {
        "inNone"
    } else if msg.contains("exactly one input non-modifier key; found multiple") {
        "inMultiple"
    } else if msg.contains("exactly one output non-modifier key; found none") {
        "outNone"
    } else if msg.contains("exactly one output non-modifier key; found multiple") {
        "outMultiple"
    } else {
        "other"
    };
    format!("rej {what}")
}

thread_local! {
    static TABLE_CACHE: RefCell<Option<(String, Result<Overrides, String>)>> = RefCell::new(None);
    static NAMES: RefCell<Option<(HashMap<String, u16>, HashMap<String, u16>)>> = RefCell::new(None);
}

fn parsed_table(t: &Raw) -> Result<Overrides, String> {
    let text = format!("(defsrc)\n(deflayer base)\n{}", overrides_text(t));
    TABLE_CACHE.with(|c| {
        let mut c = c.borrow_mut();
        if let Some((k, v)) = c.as_ref() {
            if *k == text {
                return v.clone();
            }
        }
        let v = match cfg::new_from_str(&text, Default::default()) {
            Ok(cfg) => Ok(cfg.overrides),
            Err(e) => Err(classify(&format!("{e:?}"))),
        };
        *c = Some((text, v.clone()));
        v
    })
}

/// Debug names of `OsCode` and `KeyCode` for every key of the universe.
fn names() -> (HashMap<String, u16>, HashMap<String, u16>) {
    NAMES.with(|n| {
        let mut n = n.borrow_mut();
        if n.is_none() {
            let mut os = HashMap::new();
            let mut kc = HashMap::new();
            for name in MODS.iter().chain(NONMODS.iter()) {
                let o = str_to_oscode(name).unwrap();
                os.insert(format!("{o:?}"), u16::from(o));
                kc.insert(format!("{:?}", KeyCode::from(o)), u16::from(o));
            }
            *n = Some((os, kc));
        }
        n.as_ref().unwrap().clone()
    })
}

fn nums(l: &[u16]) -> String {
    if l.is_empty() {
        "-".into()
    } else {
        l.iter().map(|k| k.to_string()).collect::<Vec<_>>().join(",")
    }
}

fn debug_field<'a>(dbg: &'a str, field: &str) -> &'a str {
    let i = dbg.find(field).unwrap_or_else(|| panic!("harness: field {field} missing in {dbg}")) + field.len();
    let rest = &dbg[i..];
    if let Some(r) = rest.strip_prefix('[') {
        &r[..r.find(']').unwrap()]
    } else {
        let end = rest.find(|c: char| c == ',' || c == ' ' || c == '}').unwrap_or(rest.len());
        &rest[..end]
    }
}

fn fmt_res(kcs: &[KeyCode], st: &OverrideStates) -> String {
    let (os_names, _) = names();
    let keys: Vec<u16> = kcs.iter().map(|k| u16::from(OsCode::from(*k))).collect();
    let rm: Vec<u16> = st.removed_oscs().map(u16::from).collect();
    // `oscs_to_add` and `mods_pressed` are private: read them from the derived Debug rendering
    let dbg = format!("{st:?}");
    let add: Vec<u16> = debug_field(&dbg, "oscs_to_add: ")
        .split(',')
        .map(|s| s.trim())
        .filter(|s| !s.is_empty())
        .map(|s| *os_names.get(s).unwrap_or_else(|| panic!("harness: unknown OsCode {s}")))
        .collect();
    let rm_dbg: Vec<u16> = debug_field(&dbg, "oscs_to_remove: ")
        .split(',')
        .map(|s| s.trim())
        .filter(|s| !s.is_empty())
        .map(|s| *os_names.get(s).unwrap_or_else(|| panic!("harness: unknown OsCode {s}")))
        .collect();
    assert_eq!(rm, rm_dbg, "harness: Debug rendering and removed_oscs() disagree");
    let mods = debug_field(&dbg, "mods_pressed: ");
    format!("keys {} rm {} add {} mods {}", nums(&keys), nums(&rm), nums(&add), mods)
}

fn to_kcs(l: &[u16]) -> Vec<KeyCode> {
    l.iter().map(|k| KeyCode::from(OsCode::from_u16(*k).unwrap())).collect()
}

fn eval_list(t: &mut Toks) -> String {
    let raw = t.table();
    assert_eq!(t.next(), "K");
    let ks = t.list();
    assert_eq!(t.next(), "C");
    let carry = t.list();
    let ov = match parsed_table(&raw) {
        Ok(o) => o,
        Err(rej) => return rej,
    };
    let mut fresh = OverrideStates::new();
    let mut kcs = to_kcs(&ks);
    ov.override_keys(&mut kcs, &mut fresh);
    let out_fresh = fmt_res(&kcs, &fresh);
    let mut used = OverrideStates::new();
    let mut ckcs = to_kcs(&carry);
    ov.override_keys(&mut ckcs, &mut used);
    let mut kcs2 = to_kcs(&ks);
    ov.override_keys(&mut kcs2, &mut used);
    let out_carried = fmt_res(&kcs2, &used);
    format!("{out_fresh} | carried {out_carried} | late={}", late_mod(&raw, &ks) as u8)
}

fn eval_pipe(t: &mut Toks) -> String {
    assert_eq!(t.next(), "R");
    let roa = t.num() != 0;
    let raw = t.table();
    assert_eq!(t.next(), "H");
    let n = t.num();
    let mut hist = vec![];
    for _ in 0..n {
        hist.push(match t.next() {
            "p" => H::P(t.num() as u16),
            "r" => H::R(t.num() as u16),
            "t" => H::T(t.num() as u32),
            x => panic!("harness: bad history token {x}"),
        });
    }
    let cfg_text = format!(
        "(defcfg override-release-on-activation {})\n(defsrc)\n(deflayer base)\n{}",
        if roa { "yes" } else { "no" },
        overrides_text(&raw)
    );
    let mut k = match Kanata::new_from_str(&cfg_text, Default::default()) {
        Ok(k) => k,
        Err(e) => return classify(&format!("{e:?}")),
    };
    let (_, kc_names) = names();
    let mut recs: Vec<String> = vec![];
    let mut seen = 0usize;
    let mut tick = 0u64;
    let mut held: Vec<u16> = vec![];
    let mut late = false;
    for h in hist {
        match h {
            H::P(c) => k
                .handle_input_event(&KeyEvent { code: OsCode::from_u16(c).unwrap(), value: KeyValue::Press })
                .expect("input event"),
            H::R(c) => k
                .handle_input_event(&KeyEvent { code: OsCode::from_u16(c).unwrap(), value: KeyValue::Release })
                .expect("input event"),
            H::T(n) => {
                for _ in 0..n {
                    k.tick_ms(1, &None).expect("tick");
                    tick += 1;
                    let mut evs = vec![];
                    for e in &k.kbd_out.outputs.events[seen..] {
                        if e.starts_with("t:") {
                            continue;
                        }
                        let (down, name) = if let Some(n) = e.strip_prefix("out:↓") {
                            (true, n)
                        } else if let Some(n) = e.strip_prefix("out:↑") {
                            (false, n)
                        } else {
                            panic!("harness: unexpected output event {e}")
                        };
                        let c = *kc_names.get(name).unwrap_or_else(|| panic!("harness: unknown key in output {e}"));
                        if down {
                            if !held.contains(&c) {
                                held.push(c);
                            }
                            evs.push(format!("+{c}"));
                        } else {
                            held.retain(|x| *x != c);
                            evs.push(format!("-{c}"));
                        }
                    }
                    seen = k.kbd_out.outputs.events.len();
                    let prev: Vec<u16> = k.prev_keys.iter().map(|kc| u16::from(OsCode::from(*kc))).collect();
                    let mut st = vec![];
                    let mut st_keys = vec![];
                    for s in k.layout.bm().states.iter() {
                        match s {
                            State::NormalKey { keycode, coord, flags } => {
                                let c = u16::from(OsCode::from(*keycode));
                                st_keys.push(c);
                                st.push(format!("{}.{}.{}", c, coord.1, flags.0));
                            }
                            other => st.push(format!("?{other:?}")),
                        }
                    }
                    late |= late_mod(&raw, &st_keys);
                    let mut os = held.clone();
                    os.sort();
                    let rm: Vec<u16> = k.override_states.removed_oscs().map(u16::from).collect();
                    recs.push(format!(
                        "@{tick} e:{} h:{} r:{} s:{} os:{}",
                        if evs.is_empty() { "-".to_string() } else { evs.join(",") },
                        nums(&prev),
                        nums(&rm),
                        if st.is_empty() { "-".to_string() } else { st.join(",") },
                        nums(&os)
                    ));
                }
            }
        }
    }
    recs.push(format!("late={}", late as u8));
    recs.join(" | ")
}

pub fn eval(line: &str) -> String {
    let mut t = Toks { t: line.split_whitespace().collect(), i: 0 };
    assert_eq!(t.next(), "C13");
    match t.next() {
        "L" | "LM" => eval_list(&mut t),
        "P" | "PM" => eval_pipe(&mut t),
        x => panic!("harness: bad mode {x}"),
    }
}
