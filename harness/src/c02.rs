//! C02 generator: whole-grammar configurations with boundary values, driven by histories that need
//! not be physically consistent: repeated presses, releases of keys that are up, floods larger than
//! every internal buffer, every key code incl. unmapped ones, repeat and tap events.
use crate::cfggen::*;
use crate::kan::{mk_kline, KEv};
use crate::lay::HEv;
use crate::rng::Rng;

fn wild_history(r: &mut Rng, keys: &[u16], n: usize) -> Vec<KEv> {
    let mut h = vec![];
    for _ in 0..n {
        let mut k = if r.chance(1, 12) { r.below(767) as u16 } else { *r.pick(keys) };
        if kanata_parser::keys::OsCode::from_u16(k).is_none() {
            k = keys[0];
        }
        match r.below(10) {
            0..=3 => h.push(KEv::L(HEv::Press(0, k))),
            4..=6 => h.push(KEv::L(HEv::Release(0, k))),
            7 => h.push(KEv::Rep(k)),
            8 => h.push(KEv::Tap(k)),
            _ => {}
        }
        if r.chance(2, 5) {
            h.push(KEv::L(HEv::Tick(*r.pick(&[1u32, 1, 2, 5, 10, 50, 200]))));
        }
    }
    h.push(KEv::L(HEv::Tick(300)));
    h
}

/// hand-written stress shapes: capacity edges of every fixed-size container
fn crafted() -> Vec<(String, Vec<KEv>)> {
    let mut v = vec![];
    let p = |y: &str| KEv::L(HEv::Press(0, code(y)));
    let rl = |y: &str| KEv::L(HEv::Release(0, code(y)));
    let t = |n: u32| KEv::L(HEv::Tick(n));
    // n layer-while-held at once, n around the layer-stack capacity 12
    for n in [11usize, 12, 13, 14] {
        let ls: Vec<String> = (0..n).map(|i| format!("(layer-while-held l{})", i % 2)).collect();
        v.push((format!("(defsrc a b)\n(deflayer l0 (multi {}) b)\n(deflayer l1 _ _)\n", ls.join(" ")), vec![p("a"), t(2), p("b"), t(5), rl("b"), rl("a"), t(5)]));
    }
    // one-shot layers tapped in a row
    {
        let keys = ["a", "b", "c", "d", "e", "f", "g", "h", "i", "j", "k", "l", "m", "n", "o", "p", "q", "r"];
        let mut cfg = String::from("(defsrc");
        for k in keys {
            cfg.push_str(&format!(" {k}"));
        }
        cfg.push_str(")\n(deflayer l0");
        for _ in keys {
            cfg.push_str(" (one-shot 5000 (layer-while-held l1))");
        }
        cfg.push_str(")\n(deflayer l1");
        for _ in keys {
            cfg.push_str(" _");
        }
        cfg.push_str(")\n");
        let mut h = vec![];
        for k in keys {
            h.push(p(k));
            h.push(t(2));
            h.push(rl(k));
            h.push(t(2));
        }
        h.push(t(20));
        v.push((cfg, h));
    }
    // repeat re-entering the action that contains it
    for a in ["(multi rpt-any a)", "(fork rpt-any b (lsft))", "(multi a rpt-any)", "(multi rpt a)", "(tap-dance-eager 50 (rpt-any a))"] {
        v.push((format!("(defsrc a b)\n(deflayer l0 {a} b)\n"), vec![p("a"), t(3), rl("a"), t(3), p("a"), t(3), rl("a"), t(3), p("a"), t(3), rl("a"), t(10)]));
    }
    // more than 8 concurrent tap-holds, then a queue flood
    {
        let keys = ["a", "b", "c", "d", "e", "f", "g", "h", "i", "j", "k"];
        let mut cfg = String::from("(defsrc");
        for k in keys {
            cfg.push_str(&format!(" {k}"));
        }
        cfg.push_str(")\n(deflayer l0");
        for (i, _) in keys.iter().enumerate() {
            cfg.push_str(&format!(" (tap-hold 0 {} x (multi y (tap-hold 0 50 1 2)))", 50 + i));
        }
        cfg.push_str(")\n");
        let mut h = vec![];
        for k in keys {
            h.push(p(k));
            h.push(t(1));
        }
        for _ in 0..5 {
            for k in keys {
                h.push(rl(k));
                h.push(p(k));
            }
        }
        h.push(t(400));
        v.push((cfg, h));
    }
    // sequence mode, chords v2 and dynamic macros are outside the kanata-level model: the real code is
    // run all the same and must not crash (model-free oracle)
    for cfg in [
        "(defsrc a b c)\n(deflayer l0 sldr b c)\n",
        "(defvirtualkeys v1 z)\n(defseq v1 (b c))\n(defsrc a b c)\n(deflayer l0 sldr b c)\n",
        "(defsrc a b c)\n(deflayer l0 (sequence 50 hidden-delay-type) b c)\n",
        "(defsrc a b c)\n(deflayer l0 (sequence 50 visible-backspaced) b c)\n",
        "(defcfg sequence-always-on yes)\n(defsrc a b c)\n(deflayer l0 a b c)\n",
        "(defcfg sequence-always-on yes sequence-input-mode hidden-delay-type)\n(defvirtualkeys v1 z)\n(defseq v1 (a b))\n(defsrc a b c)\n(deflayer l0 a b c)\n",
        "(defcfg concurrent-tap-hold yes)\n(defsrc a b c)\n(deflayer l0 a b c)\n(defchordsv2 (a b) c 30 all-released ())\n",
        "(defsrc a b c)\n(deflayer l0 (dynamic-macro-record 1) (dynamic-macro-play 1) c)\n",
        // zippychord with a caps-word key (`;;file` carries the dictionary): a = caps-word, b c = chord keys
        ";;file zd 6263096461790a\n(defsrc a b c)\n(deflayer l0 (caps-word 50) b c)\n(defzippy zd on-first-press-chord-deadline 40 idle-reactivate-time 30 smart-space full)\n",
    ] {
        // bursts without a tick: more presses than the 16-slot lists of chords v2 / sequences hold
        for (n, with_rel) in [(17usize, false), (20, true), (33, false), (40, true)] {
            let mut h = vec![];
            for i in 0..n {
                let key = ["a", "b", "a", "c"][i % 4];
                h.push(p(key));
                if with_rel {
                    h.push(rl(key));
                }
            }
            h.push(t(300));
            v.push((cfg.to_string(), h));
            v.push((cfg.to_string(), std::iter::repeat(p("a")).take(n).chain(std::iter::once(t(300))).collect()));
        }
        for seed in 0..6u64 {
            let mut r2 = Rng::new(0xC02_5E9 ^ seed);
            let keys = [code("a"), code("b"), code("c")];
            let h = wild_history(&mut r2, &keys, 6 + 4 * seed as usize);
            v.push((cfg.to_string(), h));
        }
    }
    // floods without a tick in between: Layout::event dequeues the evicted event at once, so every
    // action kind is also performed from inside event(), between two ticks, on whatever state the
    // last tick left behind (an expired eager tap-dance, a pending tap-hold, an armed one-shot ...)
    for act in [
        "(tap-dance-eager 200 (x y))", "(tap-dance-eager 1 (x))", "(tap-dance 200 (x y))", "(tap-hold 100 100 x lsft)",
        "(tap-hold-press 0 100 x lsft)", "(tap-hold-release 0 100 x lsft)", "(one-shot 100 lsft)", "(one-shot-release-pcancel 100 lsft)",
        "(macro x 5 y)", "(macro-repeat x y)", "(layer-while-held l1)", "(layer-toggle l1)", "(fork x y (w))", "(switch ((key-history q 2)) x break () y fallthrough () z break)",
        "(chord grp q)", "(multi lsft (tap-dance-eager 50 (x y z)))", "rpt", "rpt-any", "(caps-word 100)", "(release-key w)", "(on-press-fakekey v1 toggle)",
        "(unmod x)", "mlft", "(mwheel-up 50 120)", "(dynamic-macro-record 1)", "sldr",
        // the custom-action arms of handle_keystate_changes with arithmetic on their arguments, at the
        // ends of the ranges the parser admits (u16 additions in the acceleration ramp of
        // handle_move_mouse, the f32 scaling of apply_mouse_distance_modifiers, `interval - 1`)
        "(movemouse-accel-up 1 1 30000 30000)", "(movemouse-accel-left 1 65535 1 30000)", "(movemouse-accel-down 65535 2 1 30000)",
        "(multi (movemouse-speed 65535) (movemouse-speed 65535) (movemouse-up 1 30000))", "(multi (movemouse-speed 1) (movemouse-accel-right 1 3 1 2))",
        "(mwheel-down 1 30000)", "mwu", "(setmouse 65535 65535)", "(arbitrary-code 767)", "(arbitrary-code 0)", "(caps-word-toggle 1)",
        "(multi mlft mrgt mmid mfwd mbck)", "(multi x y z reverse-release-order)", "(on-press-delay 1)", "(on-release-delay 1)",
    ] {
        let cfg = format!(
            "(defvirtualkeys v1 z)\n(defchords grp 50 (q) x (w) y (q w) z)\n(defsrc q w)\n(deflayer l0 {act} {})\n(deflayer l1 _ _)\n",
            if act.starts_with("(chord") { "(chord grp w)" } else { "w" }
        );
        if !act.starts_with("(chord") && cfg.contains("defchords") {
            // the chord group must be bound somewhere: drop it when it is not used
        }
        let cfg = if act.starts_with("(chord") { cfg } else { cfg.replace("(defchords grp 50 (q) x (w) y (q w) z)\n", "") };
        for (n, with_rel, other) in [(20usize, true, false), (40, true, false), (40, false, false), (34, true, true), (70, true, true)] {
            let mut h = vec![];
            for i in 0..n {
                let key = if other && i % 3 == 2 { "w" } else { "q" };
                h.push(p(key));
                if with_rel {
                    h.push(rl(key));
                }
            }
            h.push(t(300));
            h.push(p("q"));
            h.push(t(3));
            h.push(rl("q"));
            h.push(t(300));
            v.push((cfg.clone(), h));
        }
        // the same after the state has been left to expire by ticks
        let mut h = vec![p("q"), t(1), rl("q"), t(1)];
        for _ in 0..40 {
            h.push(p("q"));
            h.push(rl("q"));
        }
        h.push(t(300));
        v.push((cfg.clone(), h));
    }
    // chords v2 perform their action at a position outside of the layers and defsrc: every kind of
    // action must be either refused by the parser or performed without a crash
    for act in [
        "use-defsrc", "@tr", "@src", "(multi x use-defsrc)", "(multi x @tr)", "(tap-hold 50 50 x @tr)", "(tap-hold 50 50 @src y)",
        "(tap-hold-release-timeout 50 50 x y @tr)", "(tap-hold-press-timeout 50 50 x y @src)", "(tap-hold-release-timeout 50 50 x y use-defsrc)",
        "(tap-hold-release-timeout 50 50 x y (multi z @tr))", "(tap-hold-release-keys 50 50 x @src (c))",
        "(one-shot 100 @src)", "(tap-dance 50 (x @tr))", "(fork @tr x (lsft))", "(fork x @src (lsft))", "(switch () @tr break)",
        "(switch ((key-history a 1)) x break () @src break)", "(chord grp a)", "@th", "(one-shot 100 lsft)", "(tap-dance 50 (x y))",
        "(layer-while-held l1)", "rpt", "rpt-any", "(macro x 10 y)", "(release-key a)", "(caps-word 100)", "(unmod x)",
        "(on-press-fakekey v1 tap)", "(fork x y (lsft))", "(switch ((input real a)) x break () y break)", "(multi lsft (macro-release-cancel x 50 y))",
        // more virtual-key events in one tick than the old 16-slot hand-over queue held
        "(multi (on-press-fakekey v1 tap) (on-press-fakekey v1 tap) (on-press-fakekey v1 tap) (on-press-fakekey v1 tap) (on-press-fakekey v1 tap) (on-press-fakekey v1 tap) (on-press-fakekey v1 tap) (on-press-fakekey v1 tap) (on-press-fakekey v1 tap))",
        "(multi (on-press-fakekey v1 tap) (on-press-fakekey v1 tap) (on-press-fakekey v1 tap) (on-press-fakekey v1 tap) (on-press-fakekey v1 tap) (on-press-fakekey v1 tap) (on-press-fakekey v1 tap) (on-press-fakekey v1 tap) (on-press-fakekey v1 tap) (on-press-fakekey v1 tap) (on-press-fakekey v1 tap) (on-press-fakekey v1 tap) (on-press-fakekey v1 tap) (on-press-fakekey v1 tap) (on-press-fakekey v1 tap) (on-press-fakekey v1 tap) (on-press-fakekey v1 tap) (on-press-fakekey v1 tap) (on-press-fakekey v1 tap) (on-press-fakekey v1 tap))",
    ] {
        let cfg = format!(
            "(defcfg concurrent-tap-hold yes)\n(defvirtualkeys v1 z)\n(defchords grp 50 (a) _ (b) use-defsrc (a b) z)\n(defalias tr _ src use-defsrc th (tap-hold 50 50 x lctl))\n(defsrc a b c)\n(deflayer l0 a b (layer-while-held l1))\n(deflayer l1 (chord grp a) (chord grp b) _)\n(defchordsv2 (a b) {act} 30 all-released ()\n (b c) {act} 30 first-release ())\n"
        );
        let mut h = vec![p("a"), t(3), p("b"), t(100), rl("a"), t(5), rl("b"), t(100)];
        v.push((cfg.clone(), h.clone()));
        h = vec![p("c"), t(3), p("b"), t(3), rl("b"), t(3), rl("c"), t(100), p("b"), t(2), p("a"), t(2), rl("b"), t(2), p("b"), t(200), rl("a"), rl("b"), t(300)];
        v.push((cfg.clone(), h));
        for seed in 0..2u64 {
            let mut r2 = Rng::new(0xC02_C42 ^ seed);
            let keys = [code("a"), code("b"), code("c")];
            let h = wild_history(&mut r2, &keys, 8 + 6 * seed as usize);
            v.push((cfg.clone(), h));
        }
    }
    // pointer movement on both axes with smooth diagonals and inherited acceleration state, under
    // undisciplined histories (repeated presses re-arm a running movement, releases of keys that are
    // up): handle_move_mouse's movemouse_buffer branches and the inheriting arm of MoveMouseAccel
    for opts in ["", " movemouse-smooth-diagonals yes", " movemouse-inherit-accel-state yes", " movemouse-smooth-diagonals yes movemouse-inherit-accel-state yes"] {
        let cfg = format!("(defcfg{opts})\n(defsrc a b c d)\n(deflayer l0 (movemouse-accel-up 1 5 1 30000) (movemouse-accel-right 2 3 7 9) (movemouse-left 1 1) (multi (movemouse-speed 300) (movemouse-accel-down 3 65535 1 2)))\n");
        for seed in 0..6u64 {
            let mut r2 = Rng::new(0xC02_3A5 ^ seed);
            let keys = [code("a"), code("b"), code("c"), code("d")];
            let h = wild_history(&mut r2, &keys, 10 + 8 * seed as usize);
            v.push((cfg.clone(), h));
        }
    }
    // the repeat key buffer (MultiKeyBuffer, 20 slots): one-shot keys accumulate their key codes
    // there when the next ordinary key is pressed; 19 / 20 / 21 / 25 codes
    for n in [19usize, 20, 21, 25] {
        let cfg = "(defsrc a b)\n(deflayer l0 (one-shot 5000 lsft) b)\n".to_string();
        let mut h = vec![];
        for _ in 0..n {
            h.push(p("a"));
            h.push(t(2));
            h.push(rl("a"));
            h.push(t(2));
        }
        h.push(p("b"));
        h.push(t(5));
        h.push(rl("b"));
        h.push(t(50));
        v.push((cfg, h));
        // the same through a five-key one-shot chord tapped n/5 times
        let cfg = "(defsrc a b)\n(deflayer l0 (one-shot 5000 C-S-A-M-ralt) b)\n".to_string();
        let mut h = vec![];
        for _ in 0..(n + 4) / 5 {
            h.push(p("a"));
            h.push(t(2));
            h.push(rl("a"));
            h.push(t(2));
        }
        h.push(p("b"));
        h.push(t(5));
        h.push(rl("b"));
        h.push(t(50));
        v.push((cfg, h));
    }
    // [t7:chv2-wide] chords v2 with many participants: the parser's bound on the number of
    // participating keys and the 16-slot lists of the run-time (presses, accumulated presses,
    // remaining_keys_to_release) have to agree. 15 / 16 / 17 / 20 / 32 participants, both release
    // behaviours, all participants pressed inside the timeout (one per tick, and as a burst without
    // a tick), held past the timeout, then released in press order or in reverse
    {
        let names = [
            "a", "b", "c", "d", "e", "f", "g", "h", "i", "j", "k", "l", "m", "n", "o", "p", "q", "r", "s", "t", "u", "v", "w", "x", "y", "z",
            "1", "2", "3", "4", "5", "6",
        ];
        for n in [15usize, 16, 17, 20, 32] {
            for rel in ["all-released", "first-release"] {
                let ks = &names[..n];
                let cfg = format!(
                    "(defcfg concurrent-tap-hold yes)\n(defsrc {0})\n(deflayer l0 {0})\n(defchordsv2 ({0}) 7 500 {rel} ())\n",
                    ks.join(" ")
                );
                for burst in [false, true] {
                    for rev in [false, true] {
                        let mut h = vec![];
                        for k in ks {
                            h.push(p(k));
                            if !burst {
                                h.push(t(1));
                            }
                        }
                        h.push(t(600));
                        let mut order: Vec<&str> = ks.to_vec();
                        if rev {
                            order.reverse();
                        }
                        for k in order {
                            h.push(rl(k));
                            h.push(t(1));
                        }
                        h.push(t(300));
                        v.push((cfg.clone(), h));
                    }
                }
            }
        }
    }
    // [t7:u16-delay] the time a queued press has already waited (`Queued::since`, saturating) becomes the
    // `delay` of the waiting state its action opens, and that state counts its own `ticks` on top:
    // the sum handed on by waiting_into_hold / _tap / _timeout and decompose_chord_into_action_queue
    // must not leave u16. Two waiting actions in a row with timeouts at the top of the admitted
    // range, every tap-hold variant and a chord group, the second key held to its deadline, tapped,
    // or interrupted, also under concurrent-tap-hold (extra_waiting) and quick tap-hold timeouts
    for (t1, t2) in [(40000u32, 40000u32), (65535, 1), (65535, 65535)] {
        for second in [
            format!("(tap-hold 0 {t2} b lsft)"), format!("(tap-hold-press 0 {t2} b lsft)"), format!("(tap-hold-release 0 {t2} b lsft)"),
            format!("(tap-hold-press-timeout 0 {t2} b lsft z)"), format!("(tap-hold-release-timeout 0 {t2} b lsft z)"),
            format!("(tap-hold-release-keys 0 {t2} b lsft (c))"), format!("(tap-hold-except-keys 0 {t2} b lsft (c))"),
            "(chord big b)".to_string(), format!("(multi x (tap-hold 0 {t2} b lsft))"),
        ] {
            for opts in ["", "concurrent-tap-hold yes"] {
                let third = if second.starts_with("(chord") { "(chord big c)" } else { "c" };
                let cfg = format!(
                    "(defcfg process-unmapped-keys yes {opts})\n(defchords big {t2} (b) x (c) y (b c) z)\n(defsrc a b c)\n(deflayer l0 (tap-hold 0 {t1} a lctl) {second} {third})\n"
                );
                let cfg = if second.starts_with("(chord") { cfg } else { cfg.replace(&format!("(defchords big {t2} (b) x (c) y (b c) z)\n"), "") };
                // held to both deadlines
                v.push((cfg.clone(), vec![p("a"), p("b"), t(t1 + 1), t(t2 + 1), rl("b"), rl("a"), t(5)]));
                // second key tapped / interrupted after the first deadline
                v.push((cfg.clone(), vec![p("a"), p("b"), t(t1 + 1), t(t2 / 2 + 1), rl("b"), t(3), rl("a"), t(5)]));
                v.push((cfg.clone(), vec![p("a"), p("b"), t(t1 + 1), t(t2 / 2 + 1), p("c"), t(2), rl("c"), t(t2), rl("b"), rl("a"), t(5)]));
            }
        }
    }
    // every key code the event loop can hand to `handle_input_event`, once. The loop forwards an
    // event untouched unless its code is in MAPPED_KEYS, and a mapped code is always below
    // KEYS_IN_ROW = 767 (process-unmapped-keys maps 0..KEYS_IN_ROW, defsrc/deflayermap/deflocalkeys
    // refuse anything larger - C11 `mapped_set_spec`), so code 767 never reaches the state machine.
    {
        let cfg = "(defcfg process-unmapped-keys yes)\n(defsrc a)\n(deflayer l0 (tap-hold 0 5 a b))\n".to_string();
        for lo in (0..767u16).step_by(24) {
            let mut h = vec![];
            for c in lo..std::cmp::min(lo + 24, 767) {
                if kanata_parser::keys::OsCode::from_u16(c).is_none() {
                    continue;
                }
                h.push(KEv::L(HEv::Press(0, c)));
                h.push(KEv::Rep(c));
                h.push(KEv::L(HEv::Release(0, c)));
                h.push(t(1));
            }
            h.push(t(20));
            v.push((cfg.clone(), h));
        }
    }
    v
}

pub fn gen(tier: &str, seed: u64) -> Vec<String> {
    let mut r = Rng::new(seed ^ 0xC02);
    let thorough = tier == "thorough";
    let mut lines = vec![];
    for (cfg, h) in crafted() {
        lines.push(mk_kline("KAN", false, &cfg, &h));
    }
    let n = if thorough { 30000 } else { 2500 };
    for i in 0..n {
        let (cfg, keys) = gen_full_cfg(&mut r, true);
        let n_ev = if i % 6 == 0 { r.range(70, 200) } else { r.range(5, 40) } as usize;
        let h = wild_history(&mut r, &keys, n_ev);
        lines.push(mk_kline("KAN", false, &cfg, &h));
    }
    // chv2: whole-grammar configurations with a `defchordsv2` table
    let mut r2 = Rng::new(seed ^ 0xC02C2);
    for i in 0..(if thorough { 6000 } else { 500 }) {
        let (cfg, keys) = crate::chv2gen::gen_full_cfg_chv2(&mut r2, true);
        let n_ev = if i % 6 == 0 { r2.range(70, 200) } else { r2.range(5, 40) } as usize;
        let h = wild_history(&mut r2, &keys, n_ev);
        lines.push(mk_kline("KAN", false, &cfg, &h));
    }
    lines
}
