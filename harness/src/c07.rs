//! C07 generator: whole-grammar configurations (all time-dependent features) under the processing
//! loop in virtual time: input events separated by gaps during which the loop may block.
use crate::cfggen::*;
use crate::kan::{mk_kline, KEv};
use crate::lay::HEv;
use crate::rng::Rng;

pub fn loop_history(r: &mut Rng, keys: &[u16], n_events: usize, gaps: &[u32], tail: u32) -> Vec<KEv> {
    let mut down: Vec<u16> = vec![];
    let mut h = vec![];
    for _ in 0..n_events {
        let press = down.is_empty() || (down.len() < keys.len() && r.chance(3, 5));
        if press {
            let ups: Vec<u16> = keys.iter().copied().filter(|k| !down.contains(k)).collect();
            let k = *r.pick(&ups);
            down.push(k);
            h.push(KEv::L(HEv::Press(0, k)));
        } else {
            let i = r.below(down.len() as u64) as usize;
            let k = down.remove(i);
            h.push(KEv::L(HEv::Release(0, k)));
        }
        let g = *r.pick(gaps);
        if g > 0 {
            h.push(KEv::Gap(g));
        }
    }
    while let Some(k) = down.pop() {
        h.push(KEv::L(HEv::Release(0, k)));
        let g = *r.pick(gaps);
        if g > 0 {
            h.push(KEv::Gap(g));
        }
    }
    h.push(KEv::Gap(tail));
    h
}

pub fn gen(tier: &str, seed: u64) -> Vec<String> {
    let mut r = Rng::new(seed ^ 0xC07);
    let thorough = tier == "thorough";
    let mut lines = vec![];
    // crafted: every kind of timeout pending when the loop is asked whether it may block
    let crafted: Vec<(&str, Vec<u32>)> = vec![
        ("(defsrc a b)\n(deflayer l0 (tap-hold 0 50 x y) b)\n", vec![1, 10, 49, 50, 51, 200]),
        ("(defsrc a b)\n(deflayer l0 (one-shot 50 lsft) b)\n", vec![1, 10, 49, 50, 51, 200]),
        ("(defcfg rapid-event-delay 0)\n(defsrc a b)\n(deflayer l0 (one-shot 1000 lsft) b)\n", vec![1, 2, 5, 50]),
        ("(defsrc a b)\n(deflayer l0 (tap-dance 50 (x y z)) b)\n", vec![1, 10, 49, 50, 51, 200]),
        ("(defsrc a b)\n(deflayer l0 (tap-dance-eager 50 (x y z)) b)\n", vec![1, 10, 49, 50, 51, 200]),
        ("(defchords cg 50 (a) x (b) y (a b) z)\n(defsrc a b)\n(deflayer l0 (chord cg a) (chord cg b))\n", vec![1, 10, 49, 50, 51, 200]),
        ("(defsrc a b)\n(deflayer l0 (macro x 40 y 40 z) b)\n", vec![1, 10, 39, 40, 41, 200]),
        ("(defsrc a b)\n(deflayer l0 (macro-repeat x 20) b)\n", vec![1, 10, 19, 20, 21, 100]),
        ("(defsrc a b)\n(deflayer l0 (caps-word 50) b)\n", vec![1, 10, 49, 50, 51, 200]),
        ("(defvirtualkeys v0 y)\n(defsrc a b)\n(deflayer l0 (hold-for-duration 50 v0) b)\n", vec![1, 10, 49, 50, 51, 200]),
        ("(defvirtualkeys v0 y)\n(defsrc a b)\n(deflayer l0 (on-idle-fakekey v0 tap 50) b)\n", vec![1, 10, 49, 50, 51, 200]),
        ("(defsrc a b)\n(deflayer l0 (mwheel-up 20 120) b)\n", vec![1, 10, 19, 20, 21, 100]),
        ("(defsrc a b)\n(deflayer l0 (movemouse-up 20 1) b)\n", vec![1, 10, 19, 20, 21, 100]),
        ("(defsrc a b)\n(deflayer l0 (mwheel-left 20 120) b)\n", vec![1, 10, 19, 20, 21, 100]),
        ("(defsrc a b)\n(deflayer l0 (mwheel-right 20 120) (mwheel-down 30 120))\n", vec![1, 10, 19, 20, 21, 100]),
        ("(defsrc a b)\n(deflayer l0 (movemouse-left 20 1) (movemouse-down 30 1))\n", vec![1, 10, 19, 20, 21, 100]),
        // the remaining pointer forms: the loop must keep ticking through an acceleration ramp and
        // while a move is parked in the smooth-diagonals buffer (is_idle reads only the two movement
        // states), wheel notches and the toggling caps-word
        ("(defsrc a b)\n(deflayer l0 (movemouse-accel-up 20 50 1 9) b)\n", vec![1, 10, 19, 20, 21, 49, 50, 51, 100]),
        ("(defcfg movemouse-smooth-diagonals yes)\n(defsrc a b)\n(deflayer l0 (movemouse-left 20 1) (movemouse-down 30 1))\n", vec![1, 10, 19, 20, 21, 29, 30, 31, 100]),
        ("(defcfg movemouse-smooth-diagonals yes movemouse-inherit-accel-state yes)\n(defsrc a b)\n(deflayer l0 (movemouse-accel-left 20 60 1 9) (movemouse-accel-down 30 40 2 5))\n", vec![1, 10, 19, 20, 21, 39, 40, 41, 100]),
        ("(defsrc a b)\n(deflayer l0 mwu (caps-word-toggle 50))\n", vec![1, 10, 49, 50, 51, 200]),
        ("(defsrc a b)\n(deflayer l0 (switch () (tap-hold 0 20 x y) fallthrough () (tap-hold 0 60 z w) break) b)\n", vec![1, 19, 20, 21, 30, 59, 60, 61, 200]),
        ("(defsrc a b)\n(deflayer l0 (switch ((key-timing 1 lt 100)) x break () y break) a)\n", vec![1, 50, 99, 100, 101, 300]),
        ("(defsrc a b c)\n(deflayer l0 (tap-hold 0 50 x y) (tap-hold 0 80 z w) c)\n", vec![1, 10, 49, 50, 79, 80, 81, 200]),
        ("(defsrc a b c)\n(deflayer l0 (one-shot-pause-processing 60) (one-shot 300 lsft) c)\n", vec![1, 10, 58, 59, 60, 61, 200, 400]),
        ("(defsrc a b c)\n(deflayer l0 (multi (one-shot-pause-processing 30) (one-shot 100 lctl)) (one-shot-release 50 lsft) c)\n", vec![1, 10, 29, 30, 31, 99, 100, 101, 300]),
        // outside the kanata-level model: decided by the paired runs alone (PAIR same / differ)
        ("(defcfg concurrent-tap-hold yes chords-v2-min-idle 30)\n(defsrc a b c)\n(deflayer l0 a b c)\n(defchordsv2 (a b) x 50 all-released ())\n", vec![1, 10, 28, 29, 30, 31, 32, 49, 50, 51, 200]),
        ("(defcfg concurrent-tap-hold yes chords-v2-min-idle 5)\n(defsrc c a b)\n(deflayer l0 c a b)\n(defchordsv2 (a b) x 40 first-release () (a c) y 20 all-released ())\n", vec![1, 4, 5, 6, 19, 20, 21, 39, 40, 41, 200]),
        ("(defcfg sequence-timeout 50)\n(defvirtualkeys v1 z)\n(defseq v1 (b c))\n(defsrc a b c)\n(deflayer l0 sldr b c)\n", vec![1, 10, 48, 49, 50, 51, 52, 200]),
        ("(defsrc a b c)\n(defoverrides (lsft b) (c))\n(deflayer l0 lsft b (one-shot 50 lsft))\n", vec![1, 10, 49, 50, 51, 200]),
        // key-timing tests on the SECOND key: the age of the first key's press is read when the second is
        // pressed, so the loop must not stop counting before the largest threshold (lt and gt alike)
        ("(defsrc a b)\n(deflayer l0 a (switch ((key-timing 1 lt 100)) x break () y break))\n", vec![1, 50, 98, 99, 100, 101, 102, 300]),
        ("(defsrc a b)\n(deflayer l0 a (switch ((key-timing 1 gt 100)) x break () y break))\n", vec![1, 50, 98, 99, 100, 101, 102, 300]),
        ("(defsrc a b)\n(deflayer l0 a (switch ((key-timing 1 gt 200)) x break ((key-timing 1 lt 50)) z break () y break))\n", vec![1, 48, 49, 50, 51, 198, 199, 200, 201, 202, 600]),
    ];
    for (cfg, gaps) in &crafted {
        let ks: Vec<u16> = if cfg.contains("a b c") { vec![code("a"), code("b"), code("c")] } else { vec![code("a"), code("b")] };
        // hold a, wait, release; tap a then b; hold both
        for g in gaps {
            for g2 in [1u32, *g] {
                let h = vec![KEv::L(HEv::Press(0, ks[0])), KEv::Gap(*g), KEv::L(HEv::Release(0, ks[0])), KEv::Gap(g2), KEv::L(HEv::Press(0, ks[1])), KEv::Gap(3), KEv::L(HEv::Release(0, ks[1])), KEv::Gap(400)];
                lines.push(mk_kline("KAN", false, cfg, &h));
                let h = vec![KEv::L(HEv::Press(0, ks[0])), KEv::Gap(2), KEv::L(HEv::Release(0, ks[0])), KEv::Gap(*g), KEv::L(HEv::Press(0, ks[1])), KEv::Gap(g2), KEv::L(HEv::Release(0, ks[1])), KEv::Gap(400)];
                lines.push(mk_kline("KAN", false, cfg, &h));
                let h = vec![KEv::L(HEv::Press(0, ks[0])), KEv::Gap(1), KEv::L(HEv::Press(0, ks[1])), KEv::Gap(*g), KEv::L(HEv::Release(0, ks[1])), KEv::Gap(g2), KEv::L(HEv::Release(0, ks[0])), KEv::Gap(400)];
                lines.push(mk_kline("KAN", false, cfg, &h));
            }
        }
        for _ in 0..(if thorough { 60 } else { 8 }) {
            let n_ev = r.range(2, 10) as usize;
            let h = loop_history(&mut r, &ks, n_ev, gaps, 400);
            lines.push(mk_kline("KAN", false, cfg, &h));
        }
    }
    // zippychord (outside the kanata-level model; decided by the paired loops on the real code): the
    // re-enable countdown after a key that is no chord, the first-press deadline and the follow-up
    // window are time-driven state that the blocking decision has to respect
    {
        let dict = "dy\tday\nab\tabout\ndy 1\tMonday\n";
        for (react, deadline) in [(100u32, 40u32), (30, 500), (500, 20)] {
            let cfg = format!(
                ";;file zd {}\n(defsrc x d y a b 1)\n(deflayer l0 x d y a b 1)\n(defzippy zd idle-reactivate-time {react} on-first-press-chord-deadline {deadline})\n",
                crate::lay::hex(dict)
            );
            let k = |n: &str| code(n);
            for g in [1u32, 10, react - 1, react, react + 1, 300, 1000] {
                // a key that is no chord, a pause, then a chord
                let h = vec![
                    KEv::L(HEv::Press(0, k("x"))), KEv::Gap(5), KEv::L(HEv::Release(0, k("x"))), KEv::Gap(g),
                    KEv::L(HEv::Press(0, k("d"))), KEv::Gap(5), KEv::L(HEv::Press(0, k("y"))), KEv::Gap(5),
                    KEv::L(HEv::Release(0, k("d"))), KEv::Gap(5), KEv::L(HEv::Release(0, k("y"))), KEv::Gap(400),
                ];
                lines.push(mk_kline("KAN", false, &cfg, &h));
                // first key of a chord, a pause around the deadline, then the second key
                let h = vec![
                    KEv::L(HEv::Press(0, k("d"))), KEv::Gap(g.min(deadline + 50)), KEv::L(HEv::Press(0, k("y"))), KEv::Gap(5),
                    KEv::L(HEv::Release(0, k("d"))), KEv::Gap(5), KEv::L(HEv::Release(0, k("y"))), KEv::Gap(400),
                ];
                lines.push(mk_kline("KAN", false, &cfg, &h));
                // a chord, a pause, then its follow-up key
                let h = vec![
                    KEv::L(HEv::Press(0, k("d"))), KEv::Gap(3), KEv::L(HEv::Press(0, k("y"))), KEv::Gap(3),
                    KEv::L(HEv::Release(0, k("d"))), KEv::Gap(3), KEv::L(HEv::Release(0, k("y"))), KEv::Gap(g),
                    KEv::L(HEv::Press(0, k("1"))), KEv::Gap(5), KEv::L(HEv::Release(0, k("1"))), KEv::Gap(400),
                ];
                lines.push(mk_kline("KAN", false, &cfg, &h));
            }
        }
    }
    // dynamic macro recorder (outside the kanata-level model; decided by the paired loops): the
    // recorder counts the ticks between the events it records (`current_delay`), so time that the
    // loop spends parked while a recording runs is time-driven state too. Record - type with a gap
    // of g ms inside - stop - replay; in the layered configuration the replay runs where the typed
    // key is a tap-hold, so a shortened recorded delay changes the KEY that is typed
    {
        let flat = |beh: &str| format!(
            "(defcfg dynamic-macro-replay-delay-behaviour {beh})\n(defsrc a b c)\n(deflayer base a (dynamic-macro-record 1) (dynamic-macro-play 1))\n");
        let layered = |beh: &str| format!(
            "(defcfg dynamic-macro-replay-delay-behaviour {beh})\n(defsrc a b c d)\n(deflayer l0 a (dynamic-macro-record 1) (dynamic-macro-play 1) (layer-switch l1))\n(deflayer l1 (tap-hold 0 50 x y) (dynamic-macro-record 1) (dynamic-macro-play 1) (layer-switch l0))\n");
        let stopkey = |beh: &str| format!(
            "(defcfg dynamic-macro-replay-delay-behaviour {beh})\n(defsrc a b c d)\n(deflayer base (tap-hold 0 50 x y) (dynamic-macro-record 1) (dynamic-macro-play 1) dynamic-macro-record-stop)\n");
        let k = |n: &str| code(n);
        // a generator of its own, so that the families below draw what they drew before
        let mut r = Rng::new(seed ^ 0xC07D);
        let tap = |h: &mut Vec<KEv>, key: u16, g: u32| {
            h.push(KEv::L(HEv::Press(0, key)));
            h.push(KEv::L(HEv::Release(0, key)));
            h.push(KEv::Gap(g));
        };
        for beh in ["recorded", "constant"] {
            for g in [1u32, 10, 49, 50, 51, 100, 300] {
                for g2 in [1u32, 10, g] {
                    // record (b), hold a for g ms, pause g2, stop by the record key, replay (c)
                    let mut h = vec![];
                    tap(&mut h, k("b"), 10);
                    h.push(KEv::L(HEv::Press(0, k("a"))));
                    h.push(KEv::Gap(g));
                    h.push(KEv::L(HEv::Release(0, k("a"))));
                    h.push(KEv::Gap(g2));
                    tap(&mut h, k("b"), 10);
                    tap(&mut h, k("c"), 600);
                    lines.push(mk_kline("KAN", false, &flat(beh), &h));
                    // the same, replayed on the layer where a is a tap-hold
                    let mut h2 = h.clone();
                    h2.truncate(h2.len() - 3);
                    tap(&mut h2, k("d"), 10);
                    tap(&mut h2, k("c"), 600);
                    lines.push(mk_kline("KAN", false, &layered(beh), &h2));
                    // stopped by the stop key; a is a tap-hold while it is typed as well
                    let mut h3 = h.clone();
                    h3.truncate(h3.len() - 6);
                    tap(&mut h3, k("d"), 10);
                    tap(&mut h3, k("c"), 600);
                    lines.push(mk_kline("KAN", false, &stopkey(beh), &h3));
                }
            }
            for cfgt in [flat(beh), layered(beh), stopkey(beh)] {
                let ks: Vec<u16> = if cfgt.contains("a b c d") { vec![k("a"), k("b"), k("c"), k("d")] } else { vec![k("a"), k("b"), k("c")] };
                for _ in 0..(if thorough { 200 } else { 12 }) {
                    let n_ev = r.range(4, 16) as usize;
                    let h = loop_history(&mut r, &ks, n_ev, &[1, 2, 10, 49, 50, 51, 120], 600);
                    lines.push(mk_kline("KAN", false, &cfgt, &h));
                }
            }
        }
    }
    // random whole-grammar configurations
    let n = if thorough { 25000 } else { 2200 };
    for i in 0..n {
        let (cfg, keys) = gen_full_cfg(&mut r, true);
        let gaps: &[u32] = match i % 3 {
            0 => &[1, 2, 3, 5, 10, 11],
            1 => &[1, 4, 49, 50, 51, 199, 200, 201],
            _ => &[1, 1, 30, 600],
        };
        let n_ev = r.range(1, 14) as usize;
        let h = loop_history(&mut r, &keys, n_ev, gaps, 700);
        lines.push(mk_kline("KAN", false, &cfg, &h));
    }
    // chv2: whole-grammar configurations with a `defchordsv2` table (the kanata-level model runs over
    // the layout with chords v2: can_block's cool-down clause, is_idle's chords-v2 conjunct)
    let mut r2 = Rng::new(seed ^ 0xC07C2);
    for i in 0..(if thorough { 6000 } else { 500 }) {
        let (cfg, keys) = crate::chv2gen::gen_full_cfg_chv2(&mut r2, true);
        let gaps: &[u32] = match i % 3 {
            0 => &[1, 2, 3, 5, 10, 11],
            1 => &[1, 4, 19, 20, 21, 49, 50, 51],
            _ => &[1, 1, 30, 600],
        };
        let n_ev = r2.range(1, 14) as usize;
        let h = loop_history(&mut r2, &keys, n_ev, gaps, 700);
        lines.push(mk_kline("KAN", false, &cfg, &h));
    }
    // kanv2 (fix PENDING-kanv2): a failed chord attempt under chords-v2-min-idle (a alone, or a then a
    // non-chord key), a pause in which the loop may block, then an input that puts TWO events into the
    // chords-v2 queue at once - `tp` (KeyValue::Tap: press and release in one input event) or a
    // virtual-key tap - so that the queue length equals the one remembered by the last scan: before the
    // repair the scan countdown left over by the cool-down made the blocking loop skip the scan
    {
        let k = |n: &str| code(n);
        for (min_idle, timeout) in [(5u32, 200u32), (5, 50), (30, 200), (20, 500)] {
            let cfg = format!("(defcfg concurrent-tap-hold yes chords-v2-min-idle {min_idle})\n(defvirtualkeys v0 z)\n(defsrc a b c)\n(deflayer l0 a b c)\n(defchordsv2 (a b) x {timeout} all-released () (b c) y {timeout} first-release ())\n");
            for hold in [1u32, 3, 10] {
                for pause in [min_idle + 2, min_idle + 10, 600] {
                    for second in 0..4 {
                        let mut h = vec![KEv::L(HEv::Press(0, k("a"))), KEv::Gap(hold), KEv::L(HEv::Release(0, k("a"))), KEv::Gap(pause)];
                        match second {
                            0 => h.push(KEv::Tap(k("a"))),
                            1 => h.push(KEv::Tap(k("c"))),
                            2 => h.push(KEv::Fake(2, 1, 0)),
                            _ => {
                                h.push(KEv::Tap(k("b")));
                                h.push(KEv::Gap(2));
                                h.push(KEv::Fake(2, 1, 0));
                            }
                        }
                        h.push(KEv::Gap(timeout + 400));
                        lines.push(mk_kline("KAN", false, &cfg, &h));
                    }
                }
            }
        }
    }
    lines
}


/// `kan::eval`, and for configurations the kanata-level model does not cover (chords v2, overrides,
/// sequences, ...) the property is still decided on the real code alone: the blocking loop and the
/// always-ticking loop are both run and their OS events compared, time for time.
pub fn eval(line: &str) -> String {
    let out = crate::kan::eval(line);
    if !out.starts_with("unsupported") {
        return out;
    }
    let p = crate::kan::parse_kline(line);
    if !p.hist.iter().any(|e| matches!(e, KEv::Gap(_))) {
        return out;
    }
    let mut a = match crate::kan::Runner::new(&p.cfg_text) {
        Ok(r) => r,
        Err(_) => return out,
    };
    crate::kan::run_hist(&mut a, &p.hist, true, false);
    let ta = a.out.clone();
    drop(a);
    let mut b = crate::kan::Runner::new(&p.cfg_text).unwrap();
    crate::kan::run_hist_always_ticking(&mut b, &p.hist);
    let tb = b.out.clone();
    let verdict = if ta == tb {
        "same".to_string()
    } else {
        let i = ta.iter().zip(tb.iter()).position(|(x, y)| x != y).unwrap_or(ta.len().min(tb.len()));
        format!(
            "differ@{}:{}/{}",
            i,
            ta.get(i).cloned().unwrap_or_else(|| "-".into()).replace(' ', "_"),
            tb.get(i).cloned().unwrap_or_else(|| "-".into()).replace(' ', "_")
        )
    };
    format!("{out} :: PAIR {verdict}")
}
