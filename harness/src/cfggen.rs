//! Shared pieces of configuration generators: key universe, defcfg options, history generators.
use crate::lay::HEv;
use crate::rng::Rng;
use kanata_parser::keys::str_to_oscode;

pub const KEYS: [&str; 8] = ["a", "b", "c", "d", "e", "f", "g", "h"];
pub const OUT_KEYS: [&str; 10] = ["q", "w", "x", "y", "z", "1", "2", "lsft", "lctl", "ralt"];

pub fn code(name: &str) -> u16 {
    u16::from(str_to_oscode(name).unwrap_or_else(|| panic!("harness: unknown key {name}")))
}

pub struct Opts {
    pub layer_stack: bool,
    pub delegate: bool,
    pub block_unmapped: bool,
    pub process_unmapped: bool,
    pub concurrent_tap_hold: bool,
    pub rapid_event_delay: Option<u16>,
    // pointer options of the glue (src/kanata/mod.rs handle_move_mouse / MoveMouseAccel arm) and the
    // Linux output bus type read by `Kanata::new_from_str`; never drawn by `random`
    pub smooth_diagonals: bool,
    pub inherit_accel: bool,
    pub bus_usb: bool,
}

impl Opts {
    pub fn random(r: &mut Rng) -> Self {
        Opts {
            layer_stack: r.chance(1, 2),
            delegate: r.chance(1, 2),
            block_unmapped: r.chance(1, 4),
            process_unmapped: r.chance(1, 3),
            concurrent_tap_hold: false,
            rapid_event_delay: None,
            smooth_diagonals: false,
            inherit_accel: false,
            bus_usb: false,
        }
    }
    pub fn text(&self) -> String {
        let mut s = String::from("(defcfg");
        s.push_str(&format!(" transparent-key-resolution {}", if self.layer_stack { "layer-stack" } else { "to-base-layer" }));
        s.push_str(&format!(" delegate-to-first-layer {}", if self.delegate { "yes" } else { "no" }));
        if self.block_unmapped {
            s.push_str(" block-unmapped-keys yes");
        }
        if self.process_unmapped {
            s.push_str(" process-unmapped-keys yes");
        }
        if self.concurrent_tap_hold {
            s.push_str(" concurrent-tap-hold yes");
        }
        if let Some(d) = self.rapid_event_delay {
            s.push_str(&format!(" rapid-event-delay {d}"));
        }
        if self.smooth_diagonals {
            s.push_str(" movemouse-smooth-diagonals yes");
        }
        if self.inherit_accel {
            s.push_str(" movemouse-inherit-accel-state yes");
        }
        if self.bus_usb {
            s.push_str(" linux-output-device-bus-type USB");
        }
        s.push_str(")\n");
        s
    }
}

/// A physically consistent history over `keys` (codes): presses of keys that are up, releases of
/// keys that are down, tick gaps drawn from `gaps`; all keys released at the end, then `tail` ticks.
pub fn consistent_history(r: &mut Rng, keys: &[u16], n_events: usize, gaps: &[u32], tail: u32) -> Vec<HEv> {
    let mut down: Vec<u16> = vec![];
    let mut h = vec![];
    for _ in 0..n_events {
        let press = down.is_empty() || (down.len() < keys.len() && r.chance(3, 5));
        if press {
            let ups: Vec<u16> = keys.iter().copied().filter(|k| !down.contains(k)).collect();
            let k = *r.pick(&ups);
            down.push(k);
            h.push(HEv::Press(0, k));
        } else {
            let i = r.below(down.len() as u64) as usize;
            let k = down.remove(i);
            h.push(HEv::Release(0, k));
        }
        let g = *r.pick(gaps);
        if g > 0 {
            h.push(HEv::Tick(g));
        }
    }
    while let Some(k) = down.pop() {
        h.push(HEv::Release(0, k));
        let g = *r.pick(gaps);
        if g > 0 {
            h.push(HEv::Tick(g));
        }
    }
    h.push(HEv::Tick(tail));
    h
}

/// Every physically consistent history of exactly `n` events over `keys` with a gap from `gaps`
/// after each event (exhaustive enumeration), each followed by releases of what is still down.
pub fn all_histories(keys: &[u16], n: usize, gaps: &[u32], tail: u32) -> Vec<Vec<HEv>> {
    fn rec(keys: &[u16], n: usize, gaps: &[u32], down: &mut Vec<u16>, cur: &mut Vec<HEv>, out: &mut Vec<Vec<HEv>>, tail: u32) {
        if n == 0 {
            let mut h = cur.clone();
            for k in down.iter().rev() {
                h.push(HEv::Release(0, *k));
                h.push(HEv::Tick(1));
            }
            h.push(HEv::Tick(tail));
            out.push(h);
            return;
        }
        for k in keys {
            let is_down = down.contains(k);
            for g in gaps {
                if is_down {
                    let pos = down.iter().position(|x| x == k).unwrap();
                    down.remove(pos);
                    cur.push(HEv::Release(0, *k));
                    if *g > 0 {
                        cur.push(HEv::Tick(*g));
                    }
                    rec(keys, n - 1, gaps, down, cur, out, tail);
                    if *g > 0 {
                        cur.pop();
                    }
                    cur.pop();
                    down.insert(pos, *k);
                } else {
                    down.push(*k);
                    cur.push(HEv::Press(0, *k));
                    if *g > 0 {
                        cur.push(HEv::Tick(*g));
                    }
                    rec(keys, n - 1, gaps, down, cur, out, tail);
                    if *g > 0 {
                        cur.pop();
                    }
                    cur.pop();
                    down.pop();
                }
            }
        }
    }
    let mut out = vec![];
    rec(keys, n, gaps, &mut vec![], &mut vec![], &mut out, tail);
    out
}

// ---------------------------------------------------------------- the whole action grammar

pub const TIMES: [u32; 6] = [2, 3, 5, 10, 50, 200];

pub struct Ctx {
    pub nlayers: usize,
    pub nvirt: usize,
    pub chord_groups: Vec<(String, Vec<&'static str>)>, // (group name, participating key names)
    pub allow_waiting: bool,
    pub allow_custom: bool,
    pub latch_free: bool,
}

fn out_key(r: &mut Rng) -> String {
    (*r.pick(&OUT_KEYS)).to_string()
}

pub fn gen_macro_items(r: &mut Rng, depth: u32, n: usize) -> String {
    let mut s = String::new();
    for i in 0..n {
        if i > 0 {
            s.push(' ');
        }
        match r.below(if depth >= 2 { 6 } else { 8 }) {
            0..=2 => s.push_str(&out_key(r)),
            3 => s.push_str(&r.range(1, 30).to_string()),
            4 => s.push_str(&format!("{}-{}", r.pick(&["S", "C", "A"]), r.pick(&["q", "w", "x"]))),
            5 => s.push_str(&r.range(1, 3).to_string()),
            6 => {
                let k = r.range(1, 3) as usize;
                s.push_str(&format!("{}-({})", r.pick(&["S", "C", "RA"]), gen_macro_items(r, depth + 1, k)))
            }
            _ => {
                let k = r.range(1, 3) as usize;
                s.push_str(&format!("({})", gen_macro_items(r, depth + 1, k)))
            }
        }
    }
    s
}

/// An action from (almost) the whole grammar. `waiting` = tap-hold / tap-dance / chord allowed here.
pub fn gen_action(r: &mut Rng, c: &Ctx, depth: u32, waiting: bool) -> String {
    let t = *r.pick(&TIMES);
    let pick = r.below(if depth >= 3 { 10 } else { 31 });
    match pick {
        0..=3 => out_key(r),
        4 => format!("{}-{}", r.pick(&["C", "S", "A", "RA", "C-S"]), r.pick(&["q", "w", "x", "1"])),
        5 => "XX".into(),
        6 => "_".into(),
        7 => "use-defsrc".into(),
        8 => format!("(layer-while-held l{})", r.below(c.nlayers as u64)),
        9 => format!("(layer-switch l{})", r.below(c.nlayers as u64)),
        10 => {
            if r.chance(1, 2) {
                format!("(release-key {})", out_key(r))
            } else {
                format!("(release-layer l{})", r.below(c.nlayers as u64))
            }
        }
        11 | 12 => {
            let n = r.range(2, 3);
            let mut s = String::from("(multi");
            let mut w = waiting;
            for _ in 0..n {
                s.push(' ');
                let a = gen_action(r, c, depth + 1, w);
                if a.starts_with("(tap-") || a.starts_with("(chord") {
                    w = false;
                }
                s.push_str(&a);
            }
            // aims at the ReverseReleaseOrder arm of handle_keystate_changes (release loop runs over
            // prev_keys backwards); the PRNG is consulted only where custom actions are allowed
            if c.allow_custom && r.chance(1, 5) {
                s.push_str(" reverse-release-order");
            }
            s.push(')');
            s
        }
        13..=16 if waiting && c.allow_waiting => {
            let hold = gen_action(r, c, depth + 1, false);
            let tap = gen_action(r, c, depth + 1, false);
            let interval = if r.chance(1, 2) { 0 } else { *r.pick(&TIMES) };
            match r.below(7) {
                0 => format!("(tap-hold {interval} {t} {tap} {hold})"),
                1 => format!("(tap-hold-press {interval} {t} {tap} {hold})"),
                2 => format!("(tap-hold-release {interval} {t} {tap} {hold})"),
                3 => format!("(tap-hold-press-timeout {interval} {t} {tap} {hold} {})", gen_action(r, c, depth + 1, false)),
                4 => format!("(tap-hold-release-timeout {interval} {t} {tap} {hold} {})", gen_action(r, c, depth + 1, false)),
                5 => format!("(tap-hold-release-keys {interval} {t} {tap} {hold} ({} {}))", r.pick(&KEYS), r.pick(&KEYS)),
                _ => format!("(tap-hold-except-keys {interval} {t} {tap} {hold} ({} {}))", r.pick(&KEYS), r.pick(&KEYS)),
            }
        }
        17 | 18 => {
            let v = r.pick(&["one-shot", "one-shot-press", "one-shot-release", "one-shot-press-pcancel", "one-shot-release-pcancel"]);
            let inner = match r.below(4) {
                0 => format!("(layer-while-held l{})", r.below(c.nlayers as u64)),
                1 => format!("{}-{}", r.pick(&["C", "S"]), r.pick(&["lalt", "lmet"])),
                _ => (*r.pick(&["lsft", "lctl", "ralt", "lalt"])).to_string(),
            };
            format!("({v} {t} {inner})")
        }
        19 | 20 if waiting && c.allow_waiting => {
            let n = r.range(1, 4);
            let mut s = format!("({} {t} (", if r.chance(1, 3) { "tap-dance-eager" } else { "tap-dance" });
            for i in 0..n {
                if i > 0 {
                    s.push(' ');
                }
                s.push_str(&gen_action(r, c, depth + 2, false));
            }
            s.push_str("))");
            s
        }
        21 | 22 => {
            let n = r.range(1, 6) as usize;
            let v = r.pick(&["macro", "macro", "macro-release-cancel", "macro-repeat", "macro-cancel-on-press", "macro-repeat-release-cancel"]);
            format!("({v} {})", gen_macro_items(r, 0, n))
        }
        23 => format!("(fork {} {} ({} {}))", gen_action(r, c, depth + 1, false), gen_action(r, c, depth + 1, false), out_key(r), out_key(r)),
        24 => {
            let n = r.range(1, 3);
            let mut s = String::from("(switch");
            for _ in 0..n {
                let cond = match r.below(5) {
                    0 => "()".to_string(),
                    1 => format!("({})", out_key(r)),
                    2 => format!("((not {}))", out_key(r)),
                    3 => format!("((input real {}))", r.pick(&KEYS)),
                    _ => format!("((or {} (layer l{})))", out_key(r), r.below(c.nlayers as u64)),
                };
                s.push_str(&format!(" {cond} {} {}", gen_action(r, c, depth + 1, false), if r.chance(1, 2) { "break" } else { "fallthrough" }));
            }
            s.push(')');
            s
        }
        25 if waiting && c.allow_waiting && !c.chord_groups.is_empty() => {
            let (g, ks) = r.pick(&c.chord_groups).clone();
            format!("(chord {g} {})", r.pick(&ks))
        }
        26 => (*r.pick(&["rpt", "rpt-any"])).to_string(),
        27 | 28 if c.allow_custom && c.nvirt > 0 => {
            let v = r.below(c.nvirt as u64);
            match r.below(4) {
                0 => format!("(on-press-fakekey v{v} {})", if c.latch_free { *r.pick(&["release", "tap"]) } else { *r.pick(&["press", "release", "tap", "toggle"]) }),
                1 => format!("(on-release-fakekey v{v} {})", if c.latch_free { *r.pick(&["release", "tap"]) } else { *r.pick(&["press", "release", "tap", "toggle"]) }),
                // always v0: two different virtual keys expiring in the same tick are released in
                // the iteration order of kanata's hash map, which the model does not reproduce
                2 => format!("(hold-for-duration {t} v0)"),
                _ => format!("(on-idle-fakekey v{v} {} {t})", r.pick(&["press", "release", "tap"])),
            }
        }
        29 if c.allow_custom => format!("({} {})", r.pick(&["unmod", "unshift"]), r.pick(&["q", "w", "1", "x"])),
        // custom actions that act on the OS directly: mouse buttons (held and tapped), wheel, pointer,
        // caps-word, unicode
        30 if c.allow_custom => match r.below(18) {
            0 | 1 => (*r.pick(&["mlft", "mrgt", "mmid"])).to_string(),
            2 => (*r.pick(&["mltp", "mrtp"])).to_string(),
            3 => format!("(mwheel-{} {} 120)", r.pick(&["up", "down", "left", "right"]), r.pick(&[5u32, 20, 50])),
            4 => format!("(movemouse-{} {} 1)", r.pick(&["up", "left", "down", "right"]), r.pick(&[5u32, 20])),
            5 => format!("(caps-word {})", r.pick(&[10u32, 50, 200])),
            6 => format!("(unicode {})", r.pick(&["x", "q"])),
            7 if r.chance(1, 2) => format!("(one-shot-pause-processing {})", r.pick(&[3u32, 20, 100])),
            // the arms of handle_keystate_changes' custom-action match that the narrower grammar never
            // reached: wheel notches, accelerated pointer movement (and handle_move_mouse's
            // acceleration ramp), pointer speed, absolute pointer position, arbitrary key codes,
            // caps-word toggle, the two sleeping delays (1-2 ms of real time), the remaining buttons
            8 => (*r.pick(&["mwu", "mwd", "mwl", "mwr"])).to_string(),
            9 | 10 => {
                let min = *r.pick(&[1u32, 2, 5]);
                let max = min + *r.pick(&[0u32, 1, 7, 30]);
                format!("(movemouse-accel-{} {} {} {min} {max})", r.pick(&["up", "left", "down", "right"]), r.pick(&[1u32, 3, 20]), r.pick(&[1u32, 4, 30, 400]))
            }
            11 => format!("(movemouse-speed {})", r.pick(&[1u32, 50, 200, 65535])),
            12 => format!("(setmouse {} {})", r.pick(&[0u32, 5, 65535]), r.pick(&[0u32, 9, 65535])),
            13 => format!("(arbitrary-code {})", r.pick(&[0u32, 30, 700, 767])),
            14 => format!("(caps-word-toggle {})", r.pick(&[10u32, 50, 200])),
            15 => format!("(caps-word-custom-toggle {} (q w x) (1 2))", r.pick(&[10u32, 50, 200])),
            16 => format!("({} {})", r.pick(&["on-press-delay", "on-release-delay"]), r.pick(&[1u32, 2])),
            17 => (*r.pick(&["mfwd", "mbck", "mmtp", "mftp", "mbtp"])).to_string(),
            _ => (*r.pick(&["mlft", "mrgt"])).to_string(),
        },
        _ => out_key(r),
    }
}

/// A configuration over the whole grammar: returns (text, physical key codes to use in histories).
pub fn gen_full_cfg(r: &mut Rng, allow_custom: bool) -> (String, Vec<u16>) {
    gen_full_cfg_opt(r, allow_custom, false)
}

pub fn gen_full_cfg_opt(r: &mut Rng, allow_custom: bool, latch_free: bool) -> (String, Vec<u16>) {
    let nkeys = r.range(2, 8) as usize;
    let nlayers = r.range(1, 4) as usize;
    let nvirt = if allow_custom { r.below(4) as usize } else { 0 };
    let mut opts = Opts::random(r);
    opts.concurrent_tap_hold = r.chance(1, 4);
    opts.rapid_event_delay = match r.below(4) {
        0 => Some(0),
        1 => Some(1),
        2 => Some(3),
        _ => None,
    };
    if allow_custom {
        // the pointer actions read these (smooth diagonals: movemouse_buffer / move_mouse_many;
        // inherited acceleration state: the first arm of the MoveMouseAccel match)
        opts.smooth_diagonals = r.chance(1, 3);
        opts.inherit_accel = r.chance(1, 3);
        opts.bus_usb = r.chance(1, 8);
    }
    let mut chord_groups = vec![];
    let mut s = opts.text();
    if r.chance(1, 2) && nkeys >= 3 {
        // one chord group over the first 2-4 keys
        let n = r.range(2, std::cmp::min(4, nkeys as u64)) as usize;
        let ks: Vec<&'static str> = KEYS[..n].to_vec();
        let mut g = format!("(defchords cg {}", r.pick(&[5u32, 20, 100]));
        // singles
        for k in &ks {
            if r.chance(3, 4) {
                g.push_str(&format!(" ({k}) {}", r.pick(&OUT_KEYS)));
            }
        }
        // pairs / triples
        for i in 0..n {
            for j in (i + 1)..n {
                if r.chance(2, 3) {
                    g.push_str(&format!(" ({} {}) {}", ks[i], ks[j], r.pick(&["S-q", "1", "2", "lctl", "(layer-while-held l0)"])));
                }
            }
        }
        if n >= 3 && r.chance(1, 2) {
            g.push_str(&format!(" ({} {} {}) {}", ks[0], ks[1], ks[2], r.pick(&["z", "C-x"])));
        }
        g.push_str(")\n");
        s.push_str(&g);
        chord_groups.push(("cg".to_string(), ks));
    }
    let ctx = Ctx { nlayers, nvirt, chord_groups, allow_waiting: true, allow_custom, latch_free };
    if nvirt > 0 {
        s.push_str("(defvirtualkeys");
        let vctx = Ctx { nlayers, nvirt: 0, chord_groups: vec![], allow_waiting: false, allow_custom: false, latch_free };
        for v in 0..nvirt {
            s.push_str(&format!(" v{v} {}", gen_action(r, &vctx, 1, false)));
        }
        s.push_str(")\n");
    }
    s.push_str("(defsrc");
    for k in &KEYS[..nkeys] {
        s.push(' ');
        s.push_str(k);
    }
    s.push_str(")\n");
    for l in 0..nlayers {
        s.push_str(&format!("(deflayer l{l}"));
        for ki in 0..nkeys {
            s.push(' ');
            // chord keys must carry their chord action on layer 0 to be useful
            if l == 0 && !ctx.chord_groups.is_empty() && ki < ctx.chord_groups[0].1.len() && r.chance(3, 4) {
                s.push_str(&format!("(chord cg {})", KEYS[ki]));
            } else {
                s.push_str(&gen_action(r, &ctx, 0, true));
            }
        }
        s.push_str(")\n");
    }
    let mut keys: Vec<u16> = KEYS[..nkeys].iter().map(|k| code(k)).collect();
    if opts.process_unmapped || r.chance(1, 4) {
        keys.push(code("m"));
    }
    (s, keys)
}

/// A zippychord configuration whose dictionary travels inside the text (`;;file` line, see
/// `kan::cfg_files`), with a caps-word key and both kinds of modifier next to the chord keys: aims at
/// the `zchd_is_caps_word_active` branches of src/kanata/output_logic/zippychord.rs (shift handling
/// while expanding, re-pressing shift afterwards), which need zippychord and caps-word together.
/// Outside the kanata-level model: judged by the model-free clauses of C01 and C02.
/// Returns (text, physical keys).
pub fn zippy_capsword_cfg(smart_space: &str, capsword_ms: u32) -> (String, Vec<u16>) {
    let dict = "dy\tday\ndy 1\tMonday\n yd\tYesterday\nd1\tx\n";
    let text = format!(
        ";;file zd {}\n(defsrc a b c d y 1 spc)\n(deflayer l0 lsft ralt (caps-word {capsword_ms}) d y 1 spc)\n(defzippy zd on-first-press-chord-deadline 40 idle-reactivate-time 30 smart-space {smart_space})\n",
        crate::lay::hex(dict)
    );
    (text, ["a", "b", "c", "d", "y", "1", "spc"].iter().map(|k| code(k)).collect())
}
