//! C14 generator: keys held down with OS repeat events injected at arbitrary points.
use crate::cfggen::*;
use crate::kan::{mk_kline, KEv};
use crate::lay::HEv;
use crate::rng::Rng;

fn simple_action(r: &mut Rng, depth: u32) -> String {
    match r.below(if depth == 0 { 8 } else { 6 }) {
        // one in eight plain keys is a reserved no-op key (nop0..nop9): never sent to the OS, also not
        // as a repeat
        0..=2 if r.chance(1, 8) => (*r.pick(&["nop0", "nop1", "nop5", "nop8", "nop9"])).to_string(),
        0..=2 => (*r.pick(&OUT_KEYS)).to_string(),
        3 | 4 => format!("{}-{}", r.pick(&["C", "S", "A", "RA", "C-S"]), r.pick(&["q", "w", "x", "1"])),
        5 => "use-defsrc".into(),
        _ => {
            let n = r.range(2, 3);
            let mut s = String::from("(multi");
            for _ in 0..n {
                s.push(' ');
                s.push_str(&simple_action(r, depth + 1));
            }
            s.push(')');
            s
        }
    }
}

fn with_repeats(r: &mut Rng, h: Vec<HEv>, p_num: u64, p_den: u64) -> Vec<KEv> {
    let mut kh = vec![];
    let mut down: Vec<u16> = vec![];
    let mut last_was_rep = false;
    for e in h {
        match &e {
            HEv::Press(_, y) => down.push(*y),
            HEv::Release(_, y) => down.retain(|k| k != y),
            _ => {}
        }
        let is_tick = matches!(e, HEv::Tick(_));
        kh.push(KEv::L(e));
        if is_tick {
            last_was_rep = false;
        }
        if !down.is_empty() && r.chance(p_num, p_den) && !last_was_rep {
            kh.push(KEv::Rep(*r.pick(&down)));
            last_was_rep = true;
        }
    }
    kh
}

pub fn gen(tier: &str, seed: u64) -> Vec<String> {
    let mut r = Rng::new(seed ^ 0xC14);
    let thorough = tier == "thorough";
    let mut lines = vec![];
    // (1) simple single-layer configurations: completeness is decided by the oracle here
    let n1 = if thorough { 8000 } else { 1200 };
    for _ in 0..n1 {
        let nkeys = r.range(2, 5) as usize;
        let mut cfg = String::from("(defsrc");
        for k in &KEYS[..nkeys] {
            cfg.push_str(&format!(" {k}"));
        }
        cfg.push_str(")\n(deflayer l0");
        for _ in 0..nkeys {
            cfg.push(' ');
            cfg.push_str(&simple_action(&mut r, 0));
        }
        cfg.push_str(")\n");
        // one configuration in four also has global overrides over the keys it can output: the
        // override's output key belongs to the outputs of every physical key that can produce its input
        if r.chance(1, 4) {
            cfg.push_str("(defoverrides");
            for _ in 0..r.range(1, 3) {
                let m = *r.pick(&["lsft", "lctl", "ralt"]);
                let i = *r.pick(&["q", "w", "x", "y", "z", "1", "2"]);
                let o = *r.pick(&["q", "w", "x", "y", "z", "1", "2"]);
                match r.below(3) {
                    0 => cfg.push_str(&format!(" ({m} {i}) ({o})")),
                    1 => cfg.push_str(&format!(" ({m} {i}) ({m} {o})")),
                    _ => cfg.push_str(&format!(" ({i}) ({m} {o})")),
                }
            }
            cfg.push_str(")\n");
        }
        let keys: Vec<u16> = KEYS[..nkeys].iter().map(|k| code(k)).collect();
        let n_ev = r.range(2, 12) as usize;
        let h = consistent_history(&mut r, &keys, n_ev, &[1, 2, 3, 5, 10], 30);
        lines.push(mk_kline("KAN", false, &cfg, &with_repeats(&mut r, h, 1, 2)));
    }
    // (1b) sequence mode (outside the kanata-level model): a pending sequence keeps its keys away from
    // the OS in two of the three input modes; an OS repeat must not be forwarded for them
    for mode in ["hidden-suppressed", "hidden-delay-type", "visible-backspaced"] {
        for always in [false, true] {
            let cfg = format!(
                "(defcfg sequence-input-mode {mode} sequence-timeout 100{})\n(defvirtualkeys v1 z)\n(defseq v1 (a b))\n(defsrc s a b c)\n(deflayer l0 sldr a b c)\n",
                if always { " sequence-always-on yes" } else { "" }
            );
            for hold in [5u32, 40, 150] {
                let mut h = vec![];
                if !always {
                    h.push(KEv::L(HEv::Press(0, code("s"))));
                    h.push(KEv::L(HEv::Tick(5)));
                    h.push(KEv::L(HEv::Release(0, code("s"))));
                    h.push(KEv::L(HEv::Tick(5)));
                }
                h.push(KEv::L(HEv::Press(0, code("a"))));
                h.push(KEv::L(HEv::Tick(hold)));
                h.push(KEv::Rep(code("a")));
                h.push(KEv::L(HEv::Tick(10)));
                h.push(KEv::Rep(code("a")));
                h.push(KEv::L(HEv::Tick(10)));
                h.push(KEv::L(HEv::Release(0, code("a"))));
                h.push(KEv::L(HEv::Tick(5)));
                h.push(KEv::L(HEv::Press(0, code("c"))));
                h.push(KEv::L(HEv::Tick(20)));
                h.push(KEv::Rep(code("c")));
                h.push(KEv::L(HEv::Tick(10)));
                h.push(KEv::L(HEv::Release(0, code("c"))));
                h.push(KEv::L(HEv::Tick(200)));
                lines.push(mk_kline("KAN", false, &cfg, &h));
            }
        }
    }
    // (1c) chords v2 (outside the kanata-level model): the key-output table has, per layer, the
    // outputs of every chord a key takes part in and that is not disabled on that layer; a repeat of
    // a participant while the chord's output is down must be forwarded as a repeat of that output.
    // `;; repeat-expect <participant> <output>` lines tell the model-free oracle what to require.
    {
        let (j, k, l, s_) = (code("j"), code("k"), code("l"), code("s"));
        let (x, y, z) = (code("x"), code("y"), code("z"));
        for (dis1, dis2, dis3) in [("(game)", "()", "()"), ("()", "(game)", "()"), ("(game)", "()", "(game)"), ("()", "()", "()"), ("(base)", "()", "()")] {
            let mut cfg = format!(
                "(defcfg concurrent-tap-hold yes)\n(defsrc j k l s d)\n(deflayer base j k l (layer-switch game) (layer-switch base))\n(deflayer game j k l (layer-switch game) (layer-switch base))\n(defchordsv2\n (j k) x 50 all-released {dis1}\n (k l) y 50 all-released {dis2}\n (j l) z 50 all-released {dis3})\n"
            );
            for (p, o) in [(j, x), (k, x), (k, y), (l, y), (j, z), (l, z)] {
                cfg.push_str(&format!(";; repeat-expect {p} {o}\n"));
            }
            for to_game in [false, true] {
                for (a, b) in [(j, k), (k, j), (k, l), (l, k), (j, l), (l, j)] {
                    let mut h = vec![];
                    if to_game {
                        h.push(KEv::L(HEv::Press(0, s_)));
                        h.push(KEv::L(HEv::Tick(5)));
                        h.push(KEv::L(HEv::Release(0, s_)));
                        h.push(KEv::L(HEv::Tick(5)));
                    }
                    h.push(KEv::L(HEv::Press(0, a)));
                    h.push(KEv::L(HEv::Tick(10)));
                    h.push(KEv::L(HEv::Press(0, b)));
                    h.push(KEv::L(HEv::Tick(100)));
                    h.push(KEv::Rep(b));
                    h.push(KEv::L(HEv::Tick(30)));
                    h.push(KEv::Rep(a));
                    h.push(KEv::L(HEv::Tick(30)));
                    h.push(KEv::Rep(b));
                    h.push(KEv::L(HEv::Tick(30)));
                    h.push(KEv::L(HEv::Release(0, a)));
                    h.push(KEv::L(HEv::Tick(5)));
                    h.push(KEv::L(HEv::Release(0, b)));
                    h.push(KEv::L(HEv::Tick(200)));
                    lines.push(mk_kline("KAN", false, &cfg, &h));
                }
            }
        }
    }
    // (1d) a key that is listed more than once in the outputs of one physical key: alone (or in a
    // chord) and again in a chord with another modifier, through tap-hold / multi / fork / tap-dance /
    // switch, held long enough for the later listing to be the one that is down. The oracle's clause
    // "the last-listed key of a chord before its modifiers" decides (single layer, any action form).
    let mut rd = Rng::new(seed ^ 0xC14D); // its own stream: the families below keep their cases
    let n1d = if thorough { 600 } else { 150 };
    for i in 0..n1d {
        let k = *rd.pick(&["q", "w", "x", "1"]);
        let m1 = *rd.pick(&["S", "C", "A", "RA"]);
        let m2 = *rd.pick(&["S", "C", "A", "RA", "C-S"]);
        let first = match rd.below(3) {
            0 => format!("{m1}-{k}"),
            _ => k.to_string(),
        };
        let second = format!("{m2}-{k}");
        let (act, hold) = match i % 5 {
            0 => (format!("(tap-hold 200 200 {first} {second})"), 300),
            1 => (format!("(multi {first} {second})"), 10),
            2 => (format!("(fork {first} {second} (b))"), 10),
            3 => (format!("(tap-dance 100 ({first} {second}))"), 10),
            _ => (format!("(switch (b) {second} break () {first} break)"), 10),
        };
        let cfg = format!("(defsrc a b)\n(deflayer l0 {act} b)\n");
        let (a, b) = (code("a"), code("b"));
        let mut h = vec![];
        // every second case holds the other key first (the fork / switch then takes its other branch)
        let with_b = rd.chance(1, 2);
        if with_b {
            h.push(KEv::L(HEv::Press(0, b)));
            h.push(KEv::L(HEv::Tick(5)));
        }
        if i % 5 == 3 {
            // tap once, then press again and hold: the second action of the dance
            h.push(KEv::L(HEv::Press(0, a)));
            h.push(KEv::L(HEv::Tick(20)));
            h.push(KEv::L(HEv::Release(0, a)));
            h.push(KEv::L(HEv::Tick(20)));
        }
        h.push(KEv::L(HEv::Press(0, a)));
        h.push(KEv::L(HEv::Tick(hold + rd.range(0, 200) as u32)));
        h.push(KEv::Rep(a));
        h.push(KEv::L(HEv::Tick(30)));
        h.push(KEv::Rep(a));
        h.push(KEv::L(HEv::Tick(5)));
        h.push(KEv::L(HEv::Release(0, a)));
        h.push(KEv::L(HEv::Tick(5)));
        if with_b {
            h.push(KEv::L(HEv::Release(0, b)));
        }
        h.push(KEv::L(HEv::Tick(300)));
        lines.push(mk_kline("KAN", false, &cfg, &h));
    }
    // (1e) many layers held at once: a chain of layer-while-held keys, the key under test mapped on
    // the OLDEST held layer (or on the base layer) and transparent above; 9-16 layers held when the
    // repeat arrives (the layer order used to keep 12 entries: a 13th held layer pushed the oldest
    // one out, and with 12 held the base layer did not fit)
    {
        let chain = ["f1", "f2", "f3", "f4", "f5", "f6", "f7", "f8", "f9", "f10", "f11", "f12", "1", "2", "3", "4"];
        let n = chain.len();
        for on_base in [false, true] {
            let mut cfg = format!("(defsrc a {})\n", chain.join(" "));
            for l in 0..=n {
                let first = if l == 0 && on_base {
                    "x"
                } else if l == 1 && !on_base {
                    "y"
                } else {
                    "_"
                };
                cfg.push_str(&format!("(deflayer l{l} {first}"));
                for j in 0..n {
                    if j == l {
                        cfg.push_str(&format!(" (layer-while-held l{})", j + 1));
                    } else {
                        cfg.push_str(" _");
                    }
                }
                cfg.push_str(")\n");
            }
            // what a repeat of `a` stands for while that output is down (model-free completeness clause)
            cfg.push_str(&format!(";; repeat-expect {} {}\n", code("a"), code(if on_base { "x" } else { "y" })));
            for held in [9usize, 11, 12, 13, 14, 16] {
                for key_first in [true, false] {
                    let mut h = vec![];
                    h.push(KEv::L(HEv::Press(0, code(chain[0]))));
                    h.push(KEv::L(HEv::Tick(3)));
                    if key_first {
                        h.push(KEv::L(HEv::Press(0, code("a"))));
                        h.push(KEv::L(HEv::Tick(3)));
                    }
                    for c in &chain[1..held] {
                        h.push(KEv::L(HEv::Press(0, code(c))));
                        h.push(KEv::L(HEv::Tick(3)));
                    }
                    if !key_first {
                        h.push(KEv::L(HEv::Press(0, code("a"))));
                        h.push(KEv::L(HEv::Tick(3)));
                    }
                    h.push(KEv::Rep(code("a")));
                    h.push(KEv::L(HEv::Tick(10)));
                    h.push(KEv::Rep(code("a")));
                    h.push(KEv::L(HEv::Tick(3)));
                    h.push(KEv::L(HEv::Release(0, code("a"))));
                    h.push(KEv::L(HEv::Tick(3)));
                    for c in chain[..held].iter().rev() {
                        h.push(KEv::L(HEv::Release(0, code(c))));
                        h.push(KEv::L(HEv::Tick(2)));
                    }
                    h.push(KEv::L(HEv::Tick(50)));
                    lines.push(mk_kline("KAN", false, &cfg, &h));
                }
            }
        }
    }
    // (2) whole grammar incl. layers, tap-hold, tap-dance, one-shot, fork, switch, chords, unmod
    let n2 = if thorough { 25000 } else { 2500 };
    for i in 0..n2 {
        let (cfg, keys) = gen_full_cfg(&mut r, true);
        let n_ev = r.range(2, 16) as usize;
        let gaps: &[u32] = if i % 2 == 0 { &[0, 1, 2, 5, 10] } else { &[1, 3, 50, 200] };
        let h = consistent_history(&mut r, &keys, n_ev, gaps, 300);
        lines.push(mk_kline("KAN", false, &cfg, &with_repeats(&mut r, h, 1, 3)));
    }
    // (3) KOT: the key-output table itself, for configurations WITH chords v2 (the kanata-level model
    // answers `unsupported` there): the model rebuilds the table from the serialised layers and the
    // serialised chords-v2 mapping and it is compared row by row with the table of the real parser
    let n3 = if thorough { 6000 } else { 700 };
    for _ in 0..n3 {
        lines.push(format!("KOT 0 {} HIST 0", crate::lay::hex(&gen_kot_cfg(&mut r))));
    }
    lines
}

// ---------------------------------------------------------------- KOT: key-output table with chords v2

/// A chord action: anything of the grammar but the two forms the parser refuses inside chords v2
fn kot_chord_action(r: &mut Rng, ctx: &Ctx) -> String {
    for _ in 0..10 {
        let a = gen_action(r, ctx, 1, true);
        let bad = a.replace('(', " ").replace(')', " ").split_whitespace().any(|t| t == "_" || t == "use-defsrc");
        if !bad {
            return a;
        }
    }
    (*r.pick(&OUT_KEYS)).to_string()
}

/// 1-4 layers over 3-6 keys, 1-5 v2 chords with overlapping participants, each disabled on a random
/// set of layers; one chord per line (the shrinker of the runner removes lines)
pub fn gen_kot_cfg(r: &mut Rng) -> String {
    let nkeys = r.range(3, 6) as usize;
    let nlayers = r.range(1, 4) as usize;
    let ctx = Ctx { nlayers, nvirt: 0, chord_groups: vec![], allow_waiting: true, allow_custom: true, latch_free: false };
    let mut s = String::from("(defcfg concurrent-tap-hold yes");
    if r.chance(1, 6) {
        s.push_str(" process-unmapped-keys yes");
    }
    s.push_str(")\n(defsrc");
    for k in &KEYS[..nkeys] {
        s.push_str(&format!(" {k}"));
    }
    s.push_str(")\n");
    for l in 0..nlayers {
        s.push_str(&format!("(deflayer l{l}"));
        for ki in 0..nkeys {
            s.push(' ');
            // half of the positions carry the plain key so that chord outputs stand out
            if r.chance(1, 2) {
                s.push_str(KEYS[ki]);
            } else {
                s.push_str(&gen_action(r, &ctx, 0, true));
            }
        }
        s.push_str(")\n");
    }
    if r.chance(1, 3) {
        s.push_str("(defoverrides");
        for _ in 0..r.range(1, 3) {
            let m = *r.pick(&["lsft", "lctl", "ralt"]);
            let i = *r.pick(&["q", "w", "x", "y", "z", "1", "2"]);
            let o = *r.pick(&["q", "w", "x", "y", "z", "1", "2", "3"]);
            match r.below(3) {
                0 => s.push_str(&format!(" ({m} {i}) ({o})")),
                1 => s.push_str(&format!(" ({m} {i}) ({m} {o})")),
                _ => s.push_str(&format!(" ({i}) ({m} {o})")),
            }
        }
        s.push_str(")\n");
    }
    let nch = r.range(1, 5) as usize;
    let mut sets: Vec<Vec<usize>> = vec![];
    s.push_str("(defchordsv2\n");
    for _ in 0..nch {
        // participants: 2-3 distinct keys of defsrc (once in eight one more key outside defsrc)
        let mut set: Vec<usize> = vec![];
        for _ in 0..20 {
            set.clear();
            let n = if nkeys >= 3 && r.chance(1, 3) { 3 } else { 2 };
            while set.len() < n {
                let k = r.below(nkeys as u64) as usize;
                if !set.contains(&k) {
                    set.push(k);
                }
            }
            set.sort();
            if !sets.contains(&set) {
                break;
            }
        }
        if sets.contains(&set) {
            continue;
        }
        sets.push(set.clone());
        let mut names: Vec<&str> = set.iter().map(|k| KEYS[*k]).collect();
        if r.chance(1, 8) {
            names.push("m");
        }
        let mut dis: Vec<String> = vec![];
        let all = r.chance(1, 10);
        for l in 0..nlayers {
            if all || r.chance(1, 3) {
                dis.push(format!("l{l}"));
            }
        }
        s.push_str(&format!(
            "  ({}) {} {} {} ({})\n",
            names.join(" "),
            kot_chord_action(r, &ctx),
            r.pick(&[20u32, 50, 200]),
            r.pick(&["first-release", "all-released"]),
            dis.join(" ")
        ));
    }
    s.push_str(")\n");
    s
}

/// canonical text of a key-output table: `TBL <layers> (L<i> (<key>=<out>,<out>…)*)*`, keys ascending
fn kot_table_text(t: &kanata_parser::cfg::KeyOutputs) -> String {
    let mut out = vec![format!("TBL {}", t.len())];
    for (i, l) in t.iter().enumerate() {
        out.push(format!("L{i}"));
        let mut keys: Vec<u16> = l.keys().map(|k| u16::from(*k)).collect();
        keys.sort();
        for k in keys {
            let row = &l[&kanata_parser::keys::OsCode::from_u16(k).unwrap()];
            out.push(format!("{k}={}", row.iter().map(|o| u16::from(*o).to_string()).collect::<Vec<_>>().join(",")));
        }
    }
    out.join(" ")
}

fn kot_cfg_text(line: &str) -> String {
    let t: Vec<&str> = line.split_whitespace().collect();
    crate::lay::unhex(t[2])
}

fn kot_overrides(c: &kanata_parser::cfg::Cfg, text: &str) -> Option<Vec<(Vec<u16>, Vec<u16>)>> {
    let has_overrides = !format!("{:?}", c.overrides).contains("overrides_by_osc: {}");
    if has_overrides {
        crate::kan::read_overrides(text)
    } else {
        Some(vec![])
    }
}

/// the table the REAL parser built
pub fn eval_kot(line: &str) -> String {
    let text = kot_cfg_text(line);
    match crate::lay::parse_cfg(&text) {
        Err(_) => "rej".into(),
        Ok(c) => {
            if kot_overrides(&c, &text).is_none() {
                return "unsupported overrides".into();
            }
            kot_table_text(&c.key_outputs)
        }
    }
}

/// `KOTX 0 <layers, defsrc, CHV2 mapping as in LAYX> CUS … KO … OVR … HIST 0`: what the real parser
/// produced - the actions of every layer for the key positions that matter (mapped keys, chord
/// participants, every key that has a row in the real table), the chords-v2 mapping, the custom-action
/// lists (only the key lists of unmod / unshift matter here) and the REAL table
pub fn expand_kot(line: &str) -> String {
    use kanata_parser::custom_action::CustomAction;
    use kanata_parser::keys::OsCode;
    let text = kot_cfg_text(line);
    let c = match crate::lay::parse_cfg(&text) {
        Err(_) => return "KOTX 0 REJECT HIST 0".into(),
        Ok(c) => c,
    };
    let ovr = match kot_overrides(&c, &text) {
        None => return "KOTX 0 UNSUPPORTED overrides HIST 0".into(),
        Some(v) => v,
    };
    // key positions beyond the mapped keys enter the universe through a pseudo history
    let mut extra: Vec<u16> = vec![];
    if let Some(ch) = c.layout.b().chords_v2.as_ref() {
        extra.extend(ch.chords().mapping.keys().copied());
    }
    for l in c.key_outputs.iter() {
        extra.extend(l.keys().map(|k| u16::from(*k)));
    }
    extra.sort();
    extra.dedup();
    let hist: Vec<HEv> = extra.iter().map(|y| HEv::Press(0, *y)).collect();
    let (lay, ser) = crate::lay::serialise_cfg(&c, &hist);
    let mut out = vec![lay];
    out.push(format!("CUS {}", ser.customs.len()));
    for (ptr, len) in ser.customs.iter() {
        let slice: &[&CustomAction] = unsafe { std::slice::from_raw_parts(*ptr as *const &CustomAction, *len) };
        out.push(len.to_string());
        for a in slice {
            out.push(match a {
                CustomAction::Unmodded { keys, mods } => {
                    format!("um {} {} {}", mods.bits(), keys.len(), keys.iter().map(|k| (*k as u16).to_string()).collect::<Vec<_>>().join(" "))
                }
                CustomAction::Unshifted { keys } => {
                    format!("us {} {}", keys.len(), keys.iter().map(|k| (*k as u16).to_string()).collect::<Vec<_>>().join(" "))
                }
                _ => "oth".into(),
            });
        }
    }
    out.push(format!("KO {}", c.key_outputs.len()));
    for l in c.key_outputs.iter() {
        let mut keys: Vec<u16> = l.keys().map(|k| u16::from(*k)).collect();
        keys.sort();
        out.push(keys.len().to_string());
        for k in keys {
            let row = &l[&OsCode::from_u16(k).unwrap()];
            out.push(format!("{k} {} {}", row.len(), row.iter().map(|o| u16::from(*o).to_string()).collect::<Vec<_>>().join(" ")));
        }
    }
    let mut t = format!("OVR {}", ovr.len());
    for (i, o) in &ovr {
        t.push_str(&format!(
            " I {} {} O {} {}",
            i.len(),
            i.iter().map(|x| x.to_string()).collect::<Vec<_>>().join(" "),
            o.len(),
            o.iter().map(|x| x.to_string()).collect::<Vec<_>>().join(" ")
        ));
    }
    out.push(t);
    let joined = out.join(" ");
    format!("KOTX 0 {} HIST 0", joined.split_whitespace().collect::<Vec<_>>().join(" "))
}
