//! C14 generator: keys held down with OS repeat events injected at arbitrary points.
use crate::cfggen::*;
use crate::kan::{mk_kline, KEv};
use crate::lay::HEv;
use crate::rng::Rng;

fn simple_action(r: &mut Rng, depth: u32) -> String {
    match r.below(if depth == 0 { 8 } else { 6 }) {
        // one in eight plain keys is a reserved no-op key (nop0..nop9): never sent to the OS, also not
        // as a repeat
        0..=2 if r.chance(1, 8) => (*r.pick(&["nop0", "nop1", "nop5", "nop8", "nop9"])).to_string(),
        0..=2 => (*r.pick(&OUT_KEYS)).to_string(),
        3 | 4 => format!("{}-{}", r.pick(&["C", "S", "A", "RA", "C-S"]), r.pick(&["q", "w", "x", "1"])),
        5 => "use-defsrc".into(),
        _ => {
            let n = r.range(2, 3);
            let mut s = String::from("(multi");
            for _ in 0..n {
                s.push(' ');
                s.push_str(&simple_action(r, depth + 1));
            }
            s.push(')');
            s
        }
    }
}

fn with_repeats(r: &mut Rng, h: Vec<HEv>, p_num: u64, p_den: u64) -> Vec<KEv> {
    let mut kh = vec![];
    let mut down: Vec<u16> = vec![];
    let mut last_was_rep = false;
    for e in h {
        match &e {
            HEv::Press(_, y) => down.push(*y),
            HEv::Release(_, y) => down.retain(|k| k != y),
            _ => {}
        }
        let is_tick = matches!(e, HEv::Tick(_));
        kh.push(KEv::L(e));
        if is_tick {
            last_was_rep = false;
        }
        if !down.is_empty() && r.chance(p_num, p_den) && !last_was_rep {
            kh.push(KEv::Rep(*r.pick(&down)));
            last_was_rep = true;
        }
    }
    kh
}

pub fn gen(tier: &str, seed: u64) -> Vec<String> {
    let mut r = Rng::new(seed ^ 0xC14);
    let thorough = tier == "thorough";
    let mut lines = vec![];
    // (1) simple single-layer configurations: completeness is decided by the oracle here
    let n1 = if thorough { 8000 } else { 1200 };
    for _ in 0..n1 {
        let nkeys = r.range(2, 5) as usize;
        let mut cfg = String::from("(defsrc");
        for k in &KEYS[..nkeys] {
            cfg.push_str(&format!(" {k}"));
        }
        cfg.push_str(")\n(deflayer l0");
        for _ in 0..nkeys {
            cfg.push(' ');
            cfg.push_str(&simple_action(&mut r, 0));
        }
        cfg.push_str(")\n");
        // one configuration in four also has global overrides over the keys it can output: the
        // override's output key belongs to the outputs of every physical key that can produce its input
        if r.chance(1, 4) {
            cfg.push_str("(defoverrides");
            for _ in 0..r.range(1, 3) {
                let m = *r.pick(&["lsft", "lctl", "ralt"]);
                let i = *r.pick(&["q", "w", "x", "y", "z", "1", "2"]);
                let o = *r.pick(&["q", "w", "x", "y", "z", "1", "2"]);
                match r.below(3) {
                    0 => cfg.push_str(&format!(" ({m} {i}) ({o})")),
                    1 => cfg.push_str(&format!(" ({m} {i}) ({m} {o})")),
                    _ => cfg.push_str(&format!(" ({i}) ({m} {o})")),
                }
            }
            cfg.push_str(")\n");
        }
        let keys: Vec<u16> = KEYS[..nkeys].iter().map(|k| code(k)).collect();
        let n_ev = r.range(2, 12) as usize;
        let h = consistent_history(&mut r, &keys, n_ev, &[1, 2, 3, 5, 10], 30);
        lines.push(mk_kline("KAN", false, &cfg, &with_repeats(&mut r, h, 1, 2)));
    }
    // (1b) sequence mode (outside the kanata-level model): a pending sequence keeps its keys away from
    // the OS in two of the three input modes; an OS repeat must not be forwarded for them
    for mode in ["hidden-suppressed", "hidden-delay-type", "visible-backspaced"] {
        for always in [false, true] {
            let cfg = format!(
                "(defcfg sequence-input-mode {mode} sequence-timeout 100{})\n(defvirtualkeys v1 z)\n(defseq v1 (a b))\n(defsrc s a b c)\n(deflayer l0 sldr a b c)\n",
                if always { " sequence-always-on yes" } else { "" }
            );
            for hold in [5u32, 40, 150] {
                let mut h = vec![];
                if !always {
                    h.push(KEv::L(HEv::Press(0, code("s"))));
                    h.push(KEv::L(HEv::Tick(5)));
                    h.push(KEv::L(HEv::Release(0, code("s"))));
                    h.push(KEv::L(HEv::Tick(5)));
                }
                h.push(KEv::L(HEv::Press(0, code("a"))));
                h.push(KEv::L(HEv::Tick(hold)));
                h.push(KEv::Rep(code("a")));
                h.push(KEv::L(HEv::Tick(10)));
                h.push(KEv::Rep(code("a")));
                h.push(KEv::L(HEv::Tick(10)));
                h.push(KEv::L(HEv::Release(0, code("a"))));
                h.push(KEv::L(HEv::Tick(5)));
                h.push(KEv::L(HEv::Press(0, code("c"))));
                h.push(KEv::L(HEv::Tick(20)));
                h.push(KEv::Rep(code("c")));
                h.push(KEv::L(HEv::Tick(10)));
                h.push(KEv::L(HEv::Release(0, code("c"))));
                h.push(KEv::L(HEv::Tick(200)));
                lines.push(mk_kline("KAN", false, &cfg, &h));
            }
        }
    }
    // (1c) chords v2 (outside the kanata-level model): the key-output table has, per layer, the
    // outputs of every chord a key takes part in and that is not disabled on that layer; a repeat of
    // a participant while the chord's output is down must be forwarded as a repeat of that output.
    // `;; repeat-expect <participant> <output>` lines tell the model-free oracle what to require.
    {
        let (j, k, l, s_) = (code("j"), code("k"), code("l"), code("s"));
        let (x, y, z) = (code("x"), code("y"), code("z"));
        for (dis1, dis2, dis3) in [("(game)", "()", "()"), ("()", "(game)", "()"), ("(game)", "()", "(game)"), ("()", "()", "()"), ("(base)", "()", "()")] {
            let mut cfg = format!(
                "(defcfg concurrent-tap-hold yes)\n(defsrc j k l s d)\n(deflayer base j k l (layer-switch game) (layer-switch base))\n(deflayer game j k l (layer-switch game) (layer-switch base))\n(defchordsv2\n (j k) x 50 all-released {dis1}\n (k l) y 50 all-released {dis2}\n (j l) z 50 all-released {dis3})\n"
            );
            for (p, o) in [(j, x), (k, x), (k, y), (l, y), (j, z), (l, z)] {
                cfg.push_str(&format!(";; repeat-expect {p} {o}\n"));
            }
            for to_game in [false, true] {
                for (a, b) in [(j, k), (k, j), (k, l), (l, k), (j, l), (l, j)] {
                    let mut h = vec![];
                    if to_game {
                        h.push(KEv::L(HEv::Press(0, s_)));
                        h.push(KEv::L(HEv::Tick(5)));
                        h.push(KEv::L(HEv::Release(0, s_)));
                        h.push(KEv::L(HEv::Tick(5)));
                    }
                    h.push(KEv::L(HEv::Press(0, a)));
                    h.push(KEv::L(HEv::Tick(10)));
                    h.push(KEv::L(HEv::Press(0, b)));
                    h.push(KEv::L(HEv::Tick(100)));
                    h.push(KEv::Rep(b));
                    h.push(KEv::L(HEv::Tick(30)));
                    h.push(KEv::Rep(a));
                    h.push(KEv::L(HEv::Tick(30)));
                    h.push(KEv::Rep(b));
                    h.push(KEv::L(HEv::Tick(30)));
                    h.push(KEv::L(HEv::Release(0, a)));
                    h.push(KEv::L(HEv::Tick(5)));
                    h.push(KEv::L(HEv::Release(0, b)));
                    h.push(KEv::L(HEv::Tick(200)));
                    lines.push(mk_kline("KAN", false, &cfg, &h));
                }
            }
        }
    }
    // (2) whole grammar incl. layers, tap-hold, tap-dance, one-shot, fork, switch, chords, unmod
    let n2 = if thorough { 25000 } else { 2500 };
    for i in 0..n2 {
        let (cfg, keys) = gen_full_cfg(&mut r, true);
        let n_ev = r.range(2, 16) as usize;
        let gaps: &[u32] = if i % 2 == 0 { &[0, 1, 2, 5, 10] } else { &[1, 3, 50, 200] };
        let h = consistent_history(&mut r, &keys, n_ev, gaps, 300);
        lines.push(mk_kline("KAN", false, &cfg, &with_repeats(&mut r, h, 1, 3)));
    }
    lines
}
