"""G1: key tables for C11 (DESIGN.md §2.2) — regenerated from the Rust SOURCE TEXT on every run.

Emits lean/KVerif/Gen/KeyTables.lean (numeric tables; key names as lists of Unicode code points so
that the kernel never has to compare strings) and lean/KVerif/Gen/KeyNames.txt (the name universe
the harness iterates over).  Everything is strict: a pattern that is not found, an arm that is not
understood or a count that does not match a second way of counting aborts the translator, which
./check reports as a broken proof obligation.

The tables are for the Linux build (`target_os = "linux"`), which is what this sandbox compiles.
"""
import re

TARGET_OS = 'linux'
FEATURES = {'zippychord', 'simulated_output', 'tcp_server'}


def die(msg):
    raise SystemExit('gen g_keytables: ' + msg)


def strip_line_comments(s):
    """Remove // comments that are not inside string literals (line based, literals never span lines)."""
    out = []
    for line in s.split('\n'):
        res, i, in_str = [], 0, False
        while i < len(line):
            c = line[i]
            if in_str:
                res.append(c)
                if c == '\\' and i + 1 < len(line):
                    res.append(line[i + 1])
                    i += 1
                elif c == '"':
                    in_str = False
            else:
                if c == '"':
                    in_str = True
                    res.append(c)
                elif c == '/' and line[i:i + 2] == '//':
                    break
                else:
                    res.append(c)
            i += 1
        out.append(''.join(res))
    return '\n'.join(out)


def block_after(src, header_re, what):
    """Text between the `{` that ends the (unique) match of header_re and its matching `}`."""
    ms = list(re.finditer(header_re, src))
    if len(ms) != 1:
        die(f'{what}: header found {len(ms)} times')
    i = ms[0].end() - 1
    if src[i] != '{':
        die(f'{what}: header regex must end at the opening brace')
    depth, j, in_str = 0, i, False
    while j < len(src):
        c = src[j]
        if in_str:
            if c == '\\':
                j += 1
            elif c == '"':
                in_str = False
        elif c == '"':
            in_str = True
        elif c == "'" and src[j + 2:j + 3] == "'":       # char literal like '{'
            j += 2
        elif c == '{':
            depth += 1
        elif c == '}':
            depth -= 1
            if depth == 0:
                return src[i + 1:j]
        j += 1
    die(f'{what}: unbalanced braces')


def rust_str(lit):
    """Decode the inside of a Rust (non-raw) string literal."""
    out, i = [], 0
    while i < len(lit):
        c = lit[i]
        if c != '\\':
            out.append(c)
            i += 1
            continue
        n = lit[i + 1]
        if n in '\\"\'':
            out.append(n)
            i += 2
        elif n == 'n':
            out.append('\n'); i += 2
        elif n == 't':
            out.append('\t'); i += 2
        elif n == 'u':
            m = re.match(r'\\u\{([0-9a-fA-F_]+)\}', lit[i:])
            if not m:
                die(f'bad \\u escape in {lit!r}')
            out.append(chr(int(m.group(1).replace('_', ''), 16)))
            i += m.end()
        else:
            die(f'unsupported escape in string literal {lit!r}')
    return ''.join(out)


STR = r'"((?:[^"\\]|\\.)*)"'


def eval_cfg(expr):
    """Evaluate a #[cfg(...)] predicate for the Linux build."""
    expr = expr.strip()
    m = re.fullmatch(r'target_os\s*=\s*"(\w+)"', expr)
    if m:
        return m.group(1) == TARGET_OS
    m = re.fullmatch(r'feature\s*=\s*"([\w-]+)"', expr)
    if m:
        return m.group(1) in FEATURES
    m = re.fullmatch(r'(any|all|not)\((.*)\)', expr, flags=re.S)
    if not m:
        die(f'unsupported cfg predicate {expr!r}')
    parts, depth, cur = [], 0, ''
    for c in m.group(2):
        if c == '(':
            depth += 1
        if c == ')':
            depth -= 1
        if c == ',' and depth == 0:
            parts.append(cur); cur = ''
        else:
            cur += c
    if cur.strip():
        parts.append(cur)
    vals = [eval_cfg(p) for p in parts]
    return {'any': any(vals), 'all': all(vals), 'not': not vals[0]}[m.group(1)]


def parse_int(tok, what):
    t = tok.strip().replace('_', '')
    try:
        return int(t, 0)
    except ValueError:
        die(f'{what}: unsupported integer {tok!r}')


def enum_discriminants(src, name):
    m = re.search(r'((?:#\[[^\]]*\]\s*)+)pub enum ' + name + r' \{', src)
    if not m:
        die(f'enum {name}: not found')
    if '#[repr(u16)]' not in m.group(1):
        die(f'enum {name}: no #[repr(u16)] (the transmute in keys/mappings.rs needs equal layouts)')
    body = block_after(src, r'pub enum ' + name + r' \{', f'enum {name}')
    n_eq_lines = len(re.findall(r'^\s*[A-Za-z_]\w*\s*=', body, flags=re.M))
    body = strip_line_comments(body)
    if '#[' in body:
        die(f'enum {name}: attributes on variants are not supported (conditional variants?)')
    items = [x.strip() for x in body.split(',') if x.strip()]
    out = []
    for it in items:
        mm = re.fullmatch(r'([A-Za-z_]\w*)\s*=\s*([0-9a-fA-Fx_]+)', it)
        if not mm:
            die(f'enum {name}: variant without an explicit integer discriminant: {it!r}')
        out.append((mm.group(1), parse_int(mm.group(2), f'enum {name}')))
    if len(out) != n_eq_lines:
        die(f'enum {name}: {len(out)} variants parsed but {n_eq_lines} `Name =` lines counted')
    if len({n for n, _ in out}) != len(out):
        die(f'enum {name}: duplicate variant name')
    return out


def variants_of(pattern_text, what):
    """`A | B | OsCode::C` -> ['A','B','C']"""
    names = []
    for p in pattern_text.split('|'):
        p = p.strip()
        mm = re.fullmatch(r'(?:OsCode::)?([A-Za-z_]\w*)', p)
        if not mm:
            die(f'{what}: pattern {p!r} not understood')
        names.append(mm.group(1))
    return names


def norm_ws(s):
    return re.sub(r'\s+', ' ', strip_line_comments(s)).strip()


def generate(REPO, emit, read):
    keys_mod = read('parser/src/keys/mod.rs')
    keys_linux = read('parser/src/keys/linux.rs')
    mappings = read('parser/src/keys/mappings.rs')
    key_code = read('keyberon/src/key_code.rs')
    outlogic = read('src/kanata/output_logic.rs')
    cfg_mod = read('parser/src/cfg/mod.rs')
    layers_rs = read('parser/src/layers.rs')
    oskbd_mod = read('src/oskbd/mod.rs')
    list_actions = read('parser/src/cfg/list_actions.rs')
    custom_action = read('parser/src/custom_action.rs')

    # ---------------------------------------------------------------- the two enums
    os_enum = enum_discriminants(keys_mod, 'OsCode')
    kc_enum = enum_discriminants(key_code, 'KeyCode')
    osd = dict(os_enum)
    kcd = dict(kc_enum)

    def osv(name, what):
        if name not in osd:
            die(f'{what}: OsCode::{name} is not a variant of the enum')
        return osd[name]

    # ---------------------------------------------------------------- from_u16 / as_u16 (Linux)
    as_body = norm_ws(block_after(keys_linux, r'const fn as_u16_linux\(self\) -> u16 \{', 'as_u16_linux'))
    if as_body != 'self as u16':
        die(f'as_u16_linux is no longer `self as u16` but {as_body!r}; the model must be updated')
    fb = block_after(keys_linux, r'const fn from_u16_linux\(code: u16\) -> Option<Self> \{', 'from_u16_linux')
    mb = block_after(fb, r'match code \{', 'from_u16_linux match')
    if norm_ws(fb) != norm_ws('match code {' + mb + '}'):
        die('from_u16_linux: body is more than a single `match code`')
    n_arrows = mb.count('=>')
    arms, saw_default = [], False
    for line in strip_line_comments(mb).split('\n'):
        line = line.strip()
        if not line:
            continue
        mm = re.fullmatch(r'([0-9a-fA-Fx_]+) => Some\(OsCode::([A-Za-z_]\w*)\),', line)
        if mm:
            if saw_default:
                die('from_u16_linux: arm after the default arm')
            arms.append((parse_int(mm.group(1), 'from_u16_linux'), osv(mm.group(2), 'from_u16_linux')))
            continue
        if line == '_ => None,':
            saw_default = True
            continue
        die(f'from_u16_linux: arm not understood: {line!r}')
    if not saw_default or len(arms) + 1 != n_arrows:
        die(f'from_u16_linux: {len(arms)} arms parsed, {n_arrows} `=>` counted')
    # dispatch of the public functions on Linux
    pub_as = norm_ws(block_after(keys_mod, r'pub fn as_u16\(self\) -> u16 \{', 'OsCode::as_u16'))
    pub_from = norm_ws(block_after(keys_mod, r'pub fn from_u16\(code: u16\) -> Option<Self> \{', 'OsCode::from_u16'))
    if '#[cfg(target_os = "linux")] return self.as_u16_linux();' not in pub_as:
        die('OsCode::as_u16 does not dispatch to as_u16_linux on Linux')
    if '#[cfg(target_os = "linux")] return OsCode::from_u16_linux(code);' not in pub_from:
        die('OsCode::from_u16 does not dispatch to from_u16_linux on Linux')

    # ---------------------------------------------------------------- KeyCode <-> OsCode
    k2o = norm_ws(block_after(mappings, r'impl From<KeyCode> for OsCode \{', 'From<KeyCode> for OsCode'))
    o2k = norm_ws(block_after(mappings, r'impl From<OsCode> for KeyCode \{', 'From<OsCode> for KeyCode'))
    if k2o != 'fn from(item: KeyCode) -> Self { unsafe { std::mem::transmute(item) } }':
        die('From<KeyCode> for OsCode is no longer a transmute; the model must be updated')
    if o2k != 'fn from(item: OsCode) -> KeyCode { unsafe { std::mem::transmute(item) } }':
        die('From<OsCode> for KeyCode is no longer a transmute; the model must be updated')
    if 'No' not in kcd:
        die('KeyCode::No not found')

    # ---------------------------------------------------------------- str_to_oscode
    fn = block_after(keys_mod, r'pub fn str_to_oscode\(s: &str\) -> Option<OsCode> \{', 'str_to_oscode')
    pre = norm_ws(fn.split('Some(match s {')[0])
    if pre != 'if let Some(osc) = CUSTOM_STRS_TO_OSCODES.lock().get(s) { return Some(*osc); }':
        die('str_to_oscode: prologue (custom map consulted first) changed')
    mb = block_after(fn, r'Some\(match s \{', 'str_to_oscode match')
    n_arrows = len(re.findall(r'=>\s*OsCode::', mb))
    name_arms, n_seen, pending_cfg, saw_default = [], 0, None, False
    for line in strip_line_comments(mb).split('\n'):
        line = line.strip()
        if not line:
            continue
        mm = re.fullmatch(r'#\[cfg\((.*)\)\]', line)
        if mm:
            if pending_cfg is not None:
                die('str_to_oscode: two cfg attributes in a row')
            pending_cfg = eval_cfg(mm.group(1))
            continue
        if line == '_ => return None,':
            saw_default = True
            continue
        mm = re.fullmatch(r'((?:' + STR + r'\s*\|\s*)*' + STR + r')\s*=>\s*OsCode::([A-Za-z_]\w*),', line)
        if not mm:
            die(f'str_to_oscode: arm not understood: {line!r}')
        if saw_default:
            die('str_to_oscode: arm after the default arm')
        n_seen += 1
        variant = re.search(r'=>\s*OsCode::([A-Za-z_]\w*),$', line).group(1)
        pats_text = line[:line.rindex('=>')]
        pats = [rust_str(x) for x in re.findall(STR, pats_text)]
        if len(pats) != pats_text.count('|') + 1:
            die(f'str_to_oscode: pattern count mismatch in {line!r}')
        include = True if pending_cfg is None else pending_cfg
        pending_cfg = None
        if include:
            code = osv(variant, 'str_to_oscode')
            for p in pats:
                name_arms.append((p, code))
    if not saw_default or n_seen != n_arrows:
        die(f'str_to_oscode: {n_seen} arms parsed, {n_arrows} `=> OsCode::` counted')

    dm = block_after(keys_mod, r'fn add_default_str_osc_mappings\(mapping: &mut HashMap<String, OsCode>\) \{', 'add_default_str_osc_mappings')
    m = re.search(r'const DEFAULT_MAPPINGS: &\[\(&str, OsCode\)\] = &\[(.*?)\];', dm, flags=re.S)
    if not m:
        die('DEFAULT_MAPPINGS not found')
    tail = norm_ws(dm[m.end():])
    if tail != 'for dm in DEFAULT_MAPPINGS { mapping.entry(dm.0.into()).or_insert(dm.1); }':
        die('add_default_str_osc_mappings: insertion loop changed (entry().or_insert expected)')
    defaults = []
    body = strip_line_comments(m.group(1))
    for mm in re.finditer(r'\(\s*' + STR + r'\s*,\s*OsCode::([A-Za-z_]\w*)\s*\)\s*,', body):
        defaults.append((rust_str(mm.group(1)), osv(mm.group(2), 'DEFAULT_MAPPINGS')))
    if len(defaults) != body.count('OsCode::') or not defaults:
        die('DEFAULT_MAPPINGS: entry count mismatch')

    # ---------------------------------------------------------------- output filters
    def const_u16(src, name):
        ms = re.findall(r'const ' + name + r': u16 = ([0-9a-fA-Fx_]+);', src)
        if len(ms) != 1:
            die(f'constant {name}: found {len(ms)} definitions')
        return parse_int(ms[0], name)
    ig_min = const_u16(outlogic, 'KEY_IGNORE_MIN')
    ig_max = const_u16(outlogic, 'KEY_IGNORE_MAX')
    hi_res = const_u16(oskbd_mod, 'HI_RES_SCROLL_UNITS_IN_LO_RES')
    wk = norm_ws(block_after(outlogic, r'fn write_key\(kb: &mut KbdOut, osc: OsCode, val: KeyValue\) -> Result<\(\), std::io::Error> \{', 'write_key'))
    if wk != 'match u16::from(osc) { KEY_IGNORE_MIN..=KEY_IGNORE_MAX => Ok(()), _ => kb.write_key(osc, val), }':
        die('output_logic::write_key changed; the model must be updated')
    filt = {}
    for f, btn_call, wheel_body, post in [
            ('press_key', 'kb.click_btn(btn)', 'let direction = osc_to_wheel_direction(osc); kb.scroll(direction, HI_RES_SCROLL_UNITS_IN_LO_RES)', 'post_filter_press(kb, osc)'),
            ('release_key', 'kb.release_btn(btn)', 'Ok(())', 'post_filter_release(kb, osc)')]:
        b = norm_ws(block_after(outlogic, r'fn ' + f + r'\(kb: &mut KbdOut, osc: OsCode\) -> Result<\(\), std::io::Error> \{', f))
        rx = (r'use OsCode::\*; match u16::from\(osc\) \{ KEY_IGNORE_MIN\.\.=KEY_IGNORE_MAX => Ok\(\(\)\), _ => match osc \{ '
              r'([A-Za-z_0-9| ]+) => \{ let btn = osc_to_btn\(osc\); ' + re.escape(btn_call) + r' \} '
              r'([A-Za-z_0-9| ]+) => \{ ' + re.escape(wheel_body) + r' \} '
              r'_ => ' + re.escape(post) + r', \}, \}')
        mm = re.fullmatch(rx, b)
        if not mm:
            die(f'output_logic::{f} changed; the model must be updated')
        filt[f] = ([osv(v, f) for v in variants_of(mm.group(1), f)], [osv(v, f) for v in variants_of(mm.group(2), f)])
    if filt['press_key'] != filt['release_key']:
        die('press_key and release_key route different code sets to the mouse')
    btn_codes, wheel_codes = filt['press_key']
    # osc_to_btn / osc_to_wheel_direction must cover exactly those codes (else unreachable!())
    ob = block_after(outlogic, r'fn osc_to_btn\(osc: OsCode\) -> Btn \{', 'osc_to_btn')
    ob_arms = re.findall(r'^\s*([A-Z_0-9a-z]+) => ([A-Za-z]+),$', block_after(ob, r'match osc \{', 'osc_to_btn match'), flags=re.M)
    ow = block_after(outlogic, r'fn osc_to_wheel_direction\(osc: OsCode\) -> MWheelDirection \{', 'osc_to_wheel_direction')
    ow_arms = re.findall(r'^\s*([A-Z_0-9a-zA-Z]+) => ([A-Za-z]+),$', block_after(ow, r'match osc \{', 'osc_to_wheel_direction match'), flags=re.M)
    if sorted(osv(a, 'osc_to_btn') for a, _ in ob_arms) != sorted(btn_codes):
        die('osc_to_btn does not cover exactly the button codes of press_key')
    if sorted(osv(a, 'osc_to_wheel_direction') for a, _ in ow_arms) != sorted(wheel_codes):
        die('osc_to_wheel_direction does not cover exactly the wheel codes of press_key')
    btn_of_code = {osv(a, 'osc_to_btn'): b for a, b in ob_arms}          # code -> Btn variant
    wheel_of_code = {osv(a, 'osc_to_wheel'): d for a, d in ow_arms}      # code -> direction

    # is_modifier
    im = norm_ws(block_after(keys_mod, r'pub fn is_modifier\(self\) -> bool \{', 'is_modifier'))
    mm = re.fullmatch(r'matches!\( self, ([A-Za-z_0-9:| ]+) \)', im)
    if not mm:
        die('is_modifier: not a single matches!')
    modifiers = [osv(v, 'is_modifier') for v in variants_of(mm.group(1), 'is_modifier')]

    # ---------------------------------------------------------------- parser pieces
    mm = re.search(r'pub const KEYS_IN_ROW: usize = ([^;]+);', layers_rs)
    if not mm:
        die('KEYS_IN_ROW not found')
    kir = mm.group(1).strip()
    m2 = re.fullmatch(r'OsCode::([A-Za-z_]\w*) as usize', kir)
    keys_in_row = osv(m2.group(1), 'KEYS_IN_ROW') if m2 else parse_int(kir, 'KEYS_IN_ROW')

    cdl = norm_ws(block_after(cfg_mod, r'fn create_defsrc_layer\(\) -> \[KanataAction; KEYS_IN_ROW\] \{', 'create_defsrc_layer'))
    cdl_expected = ('let mut layer = [KanataAction::NoOp; KEYS_IN_ROW]; for (i, ac) in layer.iter_mut().enumerate() { '
                    '*ac = OsCode::from_u16(i as u16) .map(|osc| Action::KeyCode(osc.into())) .unwrap_or(Action::NoOp); } '
                    'layer[0] = KanataAction::NoOp; layer')
    pd = block_after(cfg_mod, r'fn parse_defsrc\(\s*expr: &\[SExpr\],\s*defcfg: &CfgOptions,\s*\) -> Result<\(MappedKeys, Vec<usize>, MouseInDefsrc\)> \{', 'parse_defsrc')
    puk = norm_ws(block_after(pd, r'if defcfg\.process_unmapped_keys \{', 'process-unmapped-keys loop'))
    puk_expected = ('for osc in 0..KEYS_IN_ROW as u16 { if let Some(osc) = OsCode::from_u16(osc) { match KeyCode::from(osc) { '
                    'KeyCode::No => {} _ => { if !mapped_exceptions.contains(&osc) { mkeys.insert(osc); } } } } }')
    pdn = norm_ws(pd)
    defsrc_loop_expected = ('if mkeys.contains(&oscode) { bail_expr!(expr, "Repeat declaration of key in defsrc: \\"{}\\"", s) } '
                            'mkeys.insert(oscode); ordered_codes.push(oscode.into());')
    exc_expected = ('if mkeys.contains(&excluded_key.0) { bail_expr!(&excluded_key.1, "Keys cannot be included in defsrc and also '
                    'excepted in process-unmapped-keys."); }')
    pl = norm_ws(block_after(cfg_mod, r'fn parse_layers\(\s*s: &ParserState,\s*mapped_keys: &mut MappedKeys,\s*defcfg: &CfgOptions,\s*\) -> Result<IntermediateLayers> \{', 'parse_layers'))
    lm_expected = ('mapped_keys.insert(input_key); if !layer_mapped_keys.insert(input_key) { bail_expr!(input, "input key must not be '
                   'repeated within a layer") } layers_cfg[layer_level][0][usize::from(input_key)] = *action;')
    as_modelled = {
        'create_defsrc_layer': cdl == cdl_expected,
        'process_unmapped_keys_loop': puk == puk_expected,
        'defsrc_insert': defsrc_loop_expected in pdn,
        'defsrc_exceptions_check': exc_expected in pdn,
        'deflayermap_insert': lm_expected in pl and len(re.findall(r'(?<![A-Za-z_])mapped_keys\.insert\(', pl)) == 1,
        'layer_index0_noop': 'layers_cfg[layer_level][0][0] = Action::NoOp;' in pl,
        'mapped_keys_only_two_writers': len(re.findall(r'parse_layers\(s, &mut mapped_keys, &cfg\)', cfg_mod)) == 1
                                        and len(re.findall(r'&mut mapped_keys', cfg_mod)) == 1,
    }

    # action atoms that are tested before str_to_oscode in parse_action_atom
    pa = block_after(cfg_mod, r'fn parse_action_atom\(ac_span: &Spanned<String>, s: &ParserState\) -> Result<&\'static KanataAction> \{', 'parse_action_atom')
    if 'if let Some(oscode) = str_to_oscode(ac) {' not in pa or 'return Ok(s.a.sref(k(oscode.into())));' not in pa:
        die('parse_action_atom: key-name fallback changed')
    pam = block_after(pa, r'match ac \{', 'parse_action_atom match')
    if not norm_ws(pam).endswith('_ => {}'):
        die('parse_action_atom: special-atom match no longer ends in `_ => {}`')
    special, mouse_atoms = [], []
    arm_bodies = []          # (patterns, text of the arm)
    depth = 0
    for line in strip_line_comments(pam).split('\n'):
        st = line.strip()
        if depth == 0 and st and not st.startswith('_ =>'):
            mm = re.match(r'((?:' + STR + r'\s*\|\s*)*' + STR + r')\s*=>', st)
            if not mm:
                die(f'parse_action_atom: arm not understood: {st!r}')
            pats = [rust_str(x) for x in re.findall(STR, mm.group(1))]
            special += pats
            arm_bodies.append((pats, ''))
        if arm_bodies:
            arm_bodies[-1] = (arm_bodies[-1][0], arm_bodies[-1][1] + ' ' + st)
        depth += line.count('{') - line.count('}')
    if depth != 0:
        die('parse_action_atom: unbalanced match')
    trans_atoms = [p for ps, b in arm_bodies if 'Action::Trans' in b for p in ps]
    noop_atoms = [p for ps, b in arm_bodies if 'Action::NoOp' in b for p in ps]
    # atoms that are an error at the top level of a layer (only allowed inside `multi`)
    toplevel_err_atoms = [p for ps, b in arm_bodies if 'multi_action_nest_count' in b for p in ps]
    if not trans_atoms or not noop_atoms:
        die('parse_action_atom: Trans / NoOp atoms not found')
    btn_from = block_after(keys_linux, r'impl From<Btn> for OsCode \{', 'From<Btn> for OsCode')
    btn_map = dict(re.findall(r'Btn::([A-Za-z]+) => OsCode::([A-Za-z_0-9]+),', btn_from))
    if len(btn_map) != 5:
        die('From<Btn> for OsCode: expected 5 arms')
    # the inverse used on output (osc_to_btn) must agree with From<Btn>
    for b, v in btn_map.items():
        if btn_of_code.get(osv(v, 'From<Btn>')) != b:
            die(f'From<Btn> for OsCode and osc_to_btn disagree on Btn::{b}')
    for mm in re.finditer(r'((?:' + STR + r'\s*\|\s*)*' + STR + r')\s*=>\s*return custom\(CustomAction::Mouse\(Btn::([A-Za-z]+)\), &s\.a\),', pam):
        for p in re.findall(STR, mm.group(1)):
            mouse_atoms.append((rust_str(p), osv(btn_map[mm.group(mm.lastindex)], 'mouse atom')))
    dir_code = {d: c for c, d in wheel_of_code.items()}
    for mm in re.finditer(r'((?:' + STR + r'\s*\|\s*)*' + STR + r')\s*=>\s*\{\s*return custom\(\s*CustomAction::MWheelNotch\s*\{\s*direction: MWheelDirection::([A-Za-z]+),\s*\},\s*&s\.a,\s*\)\s*\}', pam):
        for p in re.findall(STR, mm.group(1)):
            mouse_atoms.append((rust_str(p), dir_code[mm.group(mm.lastindex)]))
    if len(mouse_atoms) != 18:
        die(f'parse_action_atom: expected 18 mouse button / wheel atoms, found {len(mouse_atoms)}')
    # TryFrom<OsCode> for MWheelDirection (used by the Linux event loop) must agree with the output side
    tf = block_after(custom_action, r'impl TryFrom<OsCode> for MWheelDirection \{', 'TryFrom<OsCode> for MWheelDirection')
    tf_arms = dict(re.findall(r'^\s*(MouseWheel[A-Za-z]+) => MWheelDirection::([A-Za-z]+),$', tf, flags=re.M))
    if {osv(a, 'MWheelDirection'): d for a, d in tf_arms.items()} != wheel_of_code:
        die('TryFrom<OsCode> for MWheelDirection and osc_to_wheel_direction disagree')

    la_names = [rust_str(x) for x in re.findall(r'pub const [A-Z_0-9]+: &str =\s*' + STR + r';', list_actions)]
    if len(la_names) != len(re.findall(r'pub const [A-Z_0-9]+: &str', list_actions)) or not la_names:
        die('list_actions.rs: constant count mismatch')

    # keyberon Display strings of KeyCode (a second place where key names are written)
    disp = block_after(key_code, r'impl fmt::Display for KeyCode \{', 'Display for KeyCode')
    disp_arms = re.findall(r'KeyCode::([A-Za-z_0-9]+) => write!\(f, ' + STR + r'\),', disp)
    if len(disp_arms) != disp.count('KeyCode::') or not disp_arms:
        die('Display for KeyCode: arm count mismatch')
    kc_display = []
    for v, lit in disp_arms:
        if v not in kcd:
            die(f'Display for KeyCode: unknown variant {v}')
        kc_display.append((rust_str(lit), kcd[v]))

    # ---------------------------------------------------------------- emit
    B = 10 ** 7

    def enc(s):
        """Key name -> Nat: base 10^7, digit = code point + 1, first character least significant
        (KeyId.encName; injective, see Lemmas/KeyId.lean)."""
        n = 0
        for c in reversed(s):
            n = n * B + ord(c) + 1
        return n

    def show(s):
        return ''.join(c if (32 < ord(c) and c.isprintable()) else '\\u{%x}' % ord(c) for c in s)

    def nat_list(xs, per=16):
        xs = list(xs)
        rows = [', '.join(str(x) for x in xs[i:i + per]) for i in range(0, len(xs), per)]
        return '[' + ',\n   '.join(rows) + ']'

    def pair_list(ps, per=8):
        ps = list(ps)
        rows = [', '.join(f'({a}, {b})' for a, b in ps[i:i + per]) for i in range(0, len(ps), per)]
        return '[' + ',\n   '.join(rows) + ']'

    def name_list(ps):
        ps = list(ps)
        rows = [f'({enc(n)}, {c}){"," if k + 1 < len(ps) else "]"}  -- {show(n)}' for k, (n, c) in enumerate(ps)]
        return '[' + '\n   '.join(rows) if rows else '[]'

    def names_only(ns):
        ns = list(ns)
        rows = [f'{enc(n)}{"," if k + 1 < len(ns) else "]"}  -- {show(n)}' for k, n in enumerate(ns)]
        return '[' + '\n   '.join(rows) if rows else '[]'

    def tree(items):
        """balanced search tree over (key, value) pairs sorted by key — a proof hint, nothing is
        assumed about it: every fact used is proved against the lists."""
        if not items:
            return '.leaf'
        mid = len(items) // 2
        k, v = items[mid]
        return f'(.node {tree(items[:mid])} {k} {v} {tree(items[mid + 1:])})'

    def lean_str(s):
        return '"' + ''.join(c if (32 <= ord(c) < 127 and c not in '"\\') else '\\u{%x}' % ord(c) for c in s) + '"'

    # canonical evdev-style names: KEY_FOO -> "foo" (the identifier under which the source writes the key)
    canon = [(n[4:].lower(), v) for n, v in os_enum if n.startswith('KEY_')]

    first = {}
    for n, c in name_arms:
        first.setdefault(enc(n), c)
    name_tree = tree(sorted(first.items()))
    acc_first = {}
    for v, c in arms:
        acc_first.setdefault(v, c)
    from_tree = tree(sorted(acc_first.items()))

    L = ['import KVerif.Model.NatTree',
         '/- GENERATED by gen/g_keytables.py from the kanata source (Linux build) — do not edit.',
         '   Key names are encoded as `Nat`s (KeyId.encName: base 10^7, digit = code point + 1, first',
         '   character least significant); the name is repeated in the comment at the end of the line. -/',
         'namespace KVerif.Gen.KeyTables', 'open KVerif (NatTree)', '']
    L += ['/-- discriminants of `enum OsCode` (parser/src/keys/mod.rs), sorted -/',
          f'def osCodeDiscs : List Nat :=\n  {nat_list(sorted(v for _, v in os_enum))}', '']
    L += ['/-- discriminants of `enum KeyCode` (keyberon/src/key_code.rs), sorted -/',
          f'def keyCodeDiscs : List Nat :=\n  {nat_list(sorted(v for _, v in kc_enum))}', '']
    L += ['/-- arms of `from_u16_linux` in source order: (code, discriminant of the variant returned); `_ => None` otherwise -/',
          f'def fromU16Arms : List (Nat × Nat) :=\n  {pair_list(arms)}', '']
    L += ['/-- `as_u16_linux` is `self as u16` (checked textually by the translator) -/',
          'def asU16IsCast : Bool := true', '']
    L += ['/-- both `From` impls in parser/src/keys/mappings.rs are `transmute` (checked textually) -/',
          'def keyCodeOsCodeIsTransmute : Bool := true', '']
    L += [f'/-- `KeyCode::No` -/\ndef keyCodeNo : Nat := {kcd["No"]}', '']
    L += [f'/-- `KEYS_IN_ROW` (parser/src/layers.rs: `{kir}`) -/\ndef keysInRow : Nat := {keys_in_row}', '']
    L += ['/-- arms of the `match s` in `str_to_oscode` compiled for Linux, flattened in source order:',
          '    (encoded key name, discriminant of the OsCode returned) -/',
          f'def nameArms : List (Nat × Nat) :=\n  {name_list(name_arms)}', '']
    L += ['/-- `DEFAULT_MAPPINGS` of `add_default_str_osc_mappings` (inserted with `entry().or_insert`) -/',
          f'def defaultMappings : List (Nat × Nat) :=\n  {name_list(defaults)}', '']
    L += [f'/-- `KEY_IGNORE_MIN` / `KEY_IGNORE_MAX` (src/kanata/output_logic.rs) -/',
          f'def keyIgnoreMin : Nat := {ig_min}', f'def keyIgnoreMax : Nat := {ig_max}', '']
    L += ['/-- codes that `press_key`/`release_key` route to `click_btn`/`release_btn` -/',
          f'def mouseBtnCodes : List Nat := {nat_list(btn_codes)}',
          '/-- codes that `press_key` routes to `scroll` (and `release_key` drops) -/',
          f'def mouseWheelCodes : List Nat := {nat_list(wheel_codes)}',
          f'/-- `HI_RES_SCROLL_UNITS_IN_LO_RES` -/\ndef hiResScrollUnits : Nat := {hi_res}', '']
    L += ['/-- `OsCode::is_modifier` -/', f'def modifierCodes : List Nat := {nat_list(modifiers)}', '']
    L += ['/-- atoms that `parse_action_atom` tests before it falls back to `str_to_oscode` -/',
          f'def specialActionAtoms : List Nat :=\n  {names_only(special)}', '']
    L += ['/-- of those, the atoms for `Action::Trans`, for `Action::NoOp`, and the ones rejected outside `multi` -/',
          f'def transAtoms : List Nat :=\n  {names_only(trans_atoms)}',
          f'def noopAtoms : List Nat :=\n  {names_only(noop_atoms)}',
          f'def topLevelErrorAtoms : List Nat :=\n  {names_only(toplevel_err_atoms)}', '']
    L += ['/-- of those, the mouse button / wheel atoms with the code of the button or wheel they act on -/',
          f'def mouseActionAtoms : List (Nat × Nat) :=\n  {name_list(mouse_atoms)}', '']
    L += ['/-- every list-action name of parser/src/cfg/list_actions.rs (an atom with such a name is rejected) -/',
          f'def listActionNames : List Nat :=\n  {names_only(la_names)}', '']
    L += ['/-- `KEY_FOO = n` of the OsCode enum as ("foo", n): the evdev name under which the source writes the key -/',
          f'def osCodeCanonNames : List (Nat × Nat) :=\n  {name_list(canon)}', '']
    L += ['/-- `impl Display for KeyCode` (keyberon): (string written for the key, discriminant) -/',
          f'def keyCodeDisplay : List (Nat × Nat) :=\n  {name_list(kc_display)}', '']
    L += ['/-- pieces of parser/src/cfg/mod.rs that Model/KeyId.lean transcribes are textually the ones transcribed -/']
    for k, v in as_modelled.items():
        L.append(f'def src_{k} : Bool := {"true" if v else "false"}')
    L += ['def parserSliceAsModelled : Bool :=\n  ' + ' && '.join('src_' + k for k in as_modelled), '']
    L += ['/-- proof hint: search tree over `nameArms` (first arm per name) -/',
          f'def nameTree : NatTree :=\n  {name_tree}', '']
    L += ['/-- proof hint: search tree over `fromU16Arms` -/',
          f'def fromU16Tree : NatTree :=\n  {from_tree}', '']
    L += ['/-- variant names, for messages only -/',
          f'def osCodeNames : List (Nat × String) :=\n  [{", ".join(f"({v}, {lean_str(n)})" for n, v in os_enum)}]', '']
    L += ['end KVerif.Gen.KeyTables']
    emit('KeyTables.lean', '\n'.join(L) + '\n')

    # name universe for the harness: one name per line as dot-separated code points
    uni, seen = [], set()
    for n, _ in name_arms + defaults + canon + kc_display + [(s, 0) for s in special] + mouse_atoms:
        if n and n not in seen and not re.search(r'\s', n):
            seen.add(n)
            uni.append(n)
    emit('KeyNames.txt', ''.join('.'.join(str(ord(c)) for c in n) + '\n' for n in uni))
