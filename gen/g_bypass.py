"""G7 (C16): sites of the configuration parser that look at an s-expression WITHOUT going through
the variable-resolving accessors `SExpr::atom(Some(vars))` / `list(Some(vars))`.

A site is one of
  * a call `.atom(None)`, `.list(None)` or `.span_list(None)`;
  * a pattern `SExpr::Atom(..)` / `SExpr::List(..)` in a match arm, `if let`, `let .. else`, or
    `matches!` (constructor *expressions* such as `SExpr::Atom(Spanned { .. })` that build a value are
    recognised by what follows and skipped).
Each site is attributed to the enclosing `fn`.  The result is a list of (file, fn, kind, count);
`Props/C16.lean` checks (by `decide`) that every (file, fn) is classified in
`Model/CfgTree.lean : bypassClass`, so a new bypass site in the parser stops the proofs from
building until somebody decides whether a rewrite may touch it.

Self-check: the number of attributed sites equals the number of textual hits found by an independent
whole-file regular expression count.
"""
import re, os

FILES = [
    'parser/src/cfg/mod.rs', 'parser/src/cfg/deftemplate.rs', 'parser/src/cfg/platform.rs',
    'parser/src/cfg/layer_opts.rs', 'parser/src/cfg/defcfg.rs', 'parser/src/cfg/chord.rs',
    'parser/src/cfg/fake_key.rs', 'parser/src/cfg/zippychord.rs', 'parser/src/cfg/switch.rs',
    'parser/src/cfg/key_override.rs', 'parser/src/cfg/custom_tap_hold.rs',
    'parser/src/cfg/is_a_button.rs', 'parser/src/cfg/key_outputs.rs', 'parser/src/cfg/list_actions.rs',
    'parser/src/cfg/error.rs',
]
# sexpr.rs defines the accessors themselves (and the s-expression reader): not consumer code.

CALL = re.compile(r'\.(atom|list|span_list)\(None\)')
PAT = re.compile(r'SExpr::(Atom|List)\(')
FN = re.compile(r'^\s*(?:pub(?:\([a-z]+\))?\s+)?(?:const\s+)?fn\s+([A-Za-z0-9_]+)')


def is_constructor_expr(line, pos):
    """`SExpr::Atom(Spanned {` / `SExpr::List(Spanned::new(` / `SExpr::List(expr.clone())` build values."""
    rest = line[pos:]
    m = re.match(r'SExpr::(?:Atom|List)\((.*)', rest)
    inner = m.group(1) if m else ''
    if re.match(r'\s*Spanned\s*\{\s*$', inner) or re.match(r'\s*Spanned::new', inner):
        return True
    if re.match(r'\s*Spanned\s*\{\s*(span|t)\s*:', inner):
        return True
    if re.match(r'\s*[a-z_][a-z0-9_.]*\.clone\(\)', inner):
        return True
    if inner.strip() == '':            # `SExpr::List(` at end of line followed by `Spanned {` on the next
        return True
    return False


def strip_tests(src):
    """drop `#[cfg(test)]`-only items at the end of a file and `#[test]` functions"""
    out, skip_depth, lines = [], None, src.split('\n')
    i = 0
    while i < len(lines):
        l = lines[i]
        if re.match(r'\s*#\[(cfg\(test\)|test)\]', l):
            # skip the attribute and the following item (brace-balanced)
            j = i + 1
            depth, seen = 0, False
            while j < len(lines):
                depth += lines[j].count('{') - lines[j].count('}')
                if '{' in lines[j]:
                    seen = True
                if (seen and depth <= 0) or (not seen and lines[j].rstrip().endswith(';')):
                    break
                j += 1
            out += [''] * (j - i + 1)
            i = j + 1
            continue
        out.append(l)
        i += 1
    return '\n'.join(out)


def scan(rel, src):
    src = strip_tests(src)
    sites = {}
    total = 0
    cur = '<toplevel>'
    for line in src.split('\n'):
        code = line.split('//')[0]
        m = FN.match(code)
        if m:
            cur = m.group(1)
        for m in CALL.finditer(code):
            k = (cur, m.group(1) + '(None)')
            sites[k] = sites.get(k, 0) + 1
            total += 1
        for m in PAT.finditer(code):
            if is_constructor_expr(code, m.start()):
                continue
            k = (cur, 'match ' + m.group(1))
            sites[k] = sites.get(k, 0) + 1
            total += 1
    # independent count
    chk = 0
    for line in src.split('\n'):
        code = line.split('//')[0]
        chk += len(CALL.findall(code))
        for m in PAT.finditer(code):
            if not is_constructor_expr(code, m.start()):
                chk += 1
    if chk != total:
        raise SystemExit(f'g_bypass: {rel}: attributed {total} sites but counted {chk}')
    return sites


def lean_str(s):
    return '"' + s.replace('\\', '\\\\').replace('"', '\\"') + '"'


def generate(REPO, emit, read):
    rows = []
    for rel in FILES:
        p = os.path.join(REPO, rel)
        if not os.path.exists(p):
            raise SystemExit(f'g_bypass: {rel} is missing')
        sites = scan(rel, read(rel))
        for (fn, kind), n in sorted(sites.items()):
            rows.append((rel.replace('parser/src/cfg/', ''), fn, kind, n))
    # every parser source file that mentions SExpr must be in FILES (sexpr.rs and tests.rs excepted)
    d = os.path.join(REPO, 'parser/src/cfg')
    for f in sorted(os.listdir(d)):
        if f.endswith('.rs') and f not in ('sexpr.rs', 'tests.rs') and 'parser/src/cfg/' + f not in FILES:
            if re.search(r'\bSExpr\b', read('parser/src/cfg/' + f)):
                raise SystemExit(f'g_bypass: parser/src/cfg/{f} handles SExpr but is not scanned')
    lines = ['/- GENERATED by gen/g_bypass.py from the parser source — do not edit. -/',
             'namespace KVerif.Gen', '',
             '/-- (file under parser/src/cfg, enclosing fn, kind of access, number of occurrences):',
             'places where the parser inspects an s-expression without variable resolution. -/',
             'def bypassSites : List (String × String × String × Nat) := [']
    for i, (f, fn, kind, n) in enumerate(rows):
        lines.append(f'  ({lean_str(f)}, {lean_str(fn)}, {lean_str(kind)}, {n})' + (',' if i + 1 < len(rows) else ''))
    lines.append(']')
    lines.append('')
    fns = sorted({(f, fn) for (f, fn, _, _) in rows})
    lines.append('/-- the distinct (file, fn) pairs of `bypassSites` -/')
    lines.append('def bypassFns : List (String × String) := [')
    for i, (f, fn) in enumerate(fns):
        lines.append(f'  ({lean_str(f)}, {lean_str(fn)})' + (',' if i + 1 < len(fns) else ''))
    lines.append(']')
    lines.append('')
    lines.append('end KVerif.Gen')
    emit('BypassSites.lean', '\n'.join(lines) + '\n')
