"""Translator piece for C07 (G3 of DESIGN.md §2.2): regenerates lean/KVerif/Gen/IdleFields.lean.

Extracted from the current text of src/kanata/mod.rs:
  * the top-level `&&` conjuncts of the expression `Kanata::is_idle` returns, in source order,
  * the conjuncts of the expression `Kanata::can_block_update_idle_waiting` returns, with the `let`
    definitions they refer to,
  * the definition of `pressed_keys_means_not_idle` / `counting_idle_ticks`.
Every conjunct is normalised (comments and white space removed) and looked up in a fixed dictionary
that names it with a constructor of `KVerif.K.IdleTag` (lean/KVerif/Model/IdleTag.lean).  A conjunct the
dictionary does not know is emitted as the constructor `unknown_<n>`, which does not exist: the
generated file then fails to elaborate, and ./check reports the proof obligation
`isIdle_interprets_source` (Props/C07src.lean) as broken - that is the intended reaction to an
`is_idle` that tests something the model does not know about.  A conjunct that disappears from the
source disappears from the list, and `idle_source_covers_model` fails.
"""
import re


def _norm(src):
    src = re.sub(r'//[^\n]*', '', src)
    return re.sub(r'\s+', '', src)


def _fn_body(src, header):
    i = src.find(header)
    if i < 0 or src.find(header, i + 1) >= 0:
        raise SystemExit(f'gen(C07): `{header}` found {"0" if i < 0 else ">1"} times')
    j = src.index('{', i + len(header) - 1)
    depth = 0
    k = j
    while True:
        ch = src[k]
        if ch == '{':
            depth += 1
        elif ch == '}':
            depth -= 1
            if depth == 0:
                break
        k += 1
    return src[j + 1:k]


def _split_top(expr, sep):
    """split at top-level occurrences of sep (outside (), {}, [], closures' bars are inside parens)"""
    out, depth, cur, i = [], 0, '', 0
    while i < len(expr):
        ch = expr[i]
        if ch in '({[':
            depth += 1
        elif ch in ')}]':
            depth -= 1
        if depth == 0 and expr.startswith(sep, i):
            out.append(cur)
            cur = ''
            i += len(sep)
            continue
        cur += ch
        i += 1
    out.append(cur)
    return out


def _tail_expr(body):
    """the trailing expression of a function body: text after the last top-level `;`"""
    body = re.sub(r'//[^\n]*', '', body)
    parts = _split_top(body, ';')
    return parts[-1], parts[:-1]


# normalised conjunct text -> IdleTag constructor
IS_IDLE = {
    'self.layout.b().queue.is_empty()': 'queueEmpty',
    'zippy_is_idle()': 'zippyIdle',
    'self.layout.b().waiting.is_none()': 'waitingNone',
    'self.layout.b().extra_waiting.is_empty()': 'extraWaitingEmpty',
    'self.layout.b().last_press_tracker.tap_hold_timeout==0': 'quickTapWindowOver',
    'self.layout.b().oneshot.keys.is_empty()': 'oneshotKeysEmpty',
    'self.layout.b().oneshot.pause_input_processing_ticks==0': 'rapidEventPauseOver',
    'self.layout.b().active_sequences.is_empty()': 'activeSequencesEmpty',
    'self.layout.b().tap_dance_eager.is_none()': 'tapDanceEagerNone',
    'self.layout.b().action_queue.is_empty()': 'actionQueueEmpty',
    'self.sequence_state.is_inactive()': 'sequenceInactive',
    'self.scroll_state.is_none()': 'scrollNone',
    'self.hscroll_state.is_none()': 'hscrollNone',
    'self.move_mouse_state_vertical.is_none()': 'moveVNone',
    'self.macro_on_press_cancel_duration==0': 'macroCancelWindowOver',
    'self.move_mouse_state_horizontal.is_none()': 'moveHNone',
    'self.dynamic_macro_replay_state.is_none()': 'dynMacroReplayNone',
    'self.caps_word.is_none()': 'capsWordNone',
    'self.vkeys_pending_release.is_empty()': 'vkeysPendingReleaseEmpty',
    '!self.layout.b().states.iter().any(|s|{matches!(s,State::SeqCustomPending(_)|State::SeqCustomActive(_))'
    '||(pressed_keys_means_not_idle&&matches!(s,State::NormalKey{..}))})': 'noSeqCustomOrCountedKeyState',
    'self.layout.b().chords_v2.as_ref().map(|cv2|cv2.is_idle_chv2()).unwrap_or(true)': 'chordsV2Idle',
}
IS_IDLE_LETS = {
    'letpressed_keys_means_not_idle=!self.waiting_for_idle.is_empty()||self.live_reload_requested': 'pressedKeysDef',
}
CAN_BLOCK = {
    'is_idle': 'cbIsIdle',
    '!counting_idle_ticks': 'cbNotCountingIdleTicks',
    'passed_max_switch_timing_check': 'cbPassedMaxSwitchTiming',
    'chordsv2_accepts_chords': 'cbChordsV2Accepts',
    '!recording_dynamic_macro': 'cbNotRecordingDynMacro',
}
CAN_BLOCK_LETS = {
    'letrecording_dynamic_macro=k.dynamic_macro_record_state.is_some()': 'cbLetRecording',
    'letis_idle=k.is_idle()': 'cbLetIsIdle',
    'letcounting_idle_ticks=!k.waiting_for_idle.is_empty()||k.live_reload_requested': 'cbLetCounting',
    'if!is_idle{k.ticks_since_idle=0;}elseifis_idle&&counting_idle_ticks{k.ticks_since_idle=k.ticks_since_idle.saturating_add(ms_elapsed);}': 'cbUpdateTicksSinceIdle',
    'letpassed_max_switch_timing_check=k.layout.b().historical_keys.iter_hevents().next().map(|he|he.ticks_since_occurrence>=k.switch_max_key_timing).unwrap_or(true)': 'cbLetPassed',
    'letchordsv2_accepts_chords=k.layout.b().chords_v2.as_ref().map(|cv2|cv2.accepts_chords_chv2()).unwrap_or(true)': 'cbLetChordsV2',
}


def _tags(items, table, unknown_prefix, notes):
    out = []
    for n, it in enumerate(items):
        t = _norm(it)
        if t in table:
            out.append('.' + table[t])
        else:
            out.append(f'.unknown_{unknown_prefix}{n}')
            notes.append(f'-- NOT RECOGNISED ({unknown_prefix}{n}): {it.strip()[:300]!r}')
    return out


def generate(REPO, emit, read):
    src = read('src/kanata/mod.rs')
    notes = []
    # --- is_idle
    body = _fn_body(src, 'pub fn is_idle(&self) -> bool {')
    tail, stmts = _tail_expr(body)
    conj = [c for c in _split_top(re.sub(r'\s+', ' ', tail), '&&')]
    idle_tags = _tags(conj, IS_IDLE, 'i', notes)
    idle_lets = _tags([s for s in stmts if s.strip()], IS_IDLE_LETS, 'il', notes)
    # --- can_block_update_idle_waiting
    body = _fn_body(src, 'pub fn can_block_update_idle_waiting(&mut self, ms_elapsed: u16) -> bool {')
    # strip cfg(feature = "perf_logging") log statements
    body = re.sub(r'#\[cfg\(feature = "perf_logging"\)\]\s*log::info!\([^;]*\);', '', body)
    tail, stmts = _tail_expr(body)
    # the `if/else if` statement has no trailing `;`: it is glued to the next `let`; separate it
    fixed = []
    for s in stmts:
        m = re.match(r'^(\s*if .*\})\s*(let .*)$', re.sub(r'//[^\n]*', '', s), flags=re.S)
        if m and _split_top(m.group(1), ';'):
            fixed += [m.group(1), m.group(2)]
        else:
            fixed.append(s)
    # `let k = self;` style aliases are allowed
    fixed = [s for s in fixed if s.strip() and _norm(s) not in ('letk=self',)]
    cb_tags = _tags(_split_top(re.sub(r'\s+', ' ', tail), '&&'), CAN_BLOCK, 'c', notes)
    cb_lets = _tags(fixed, CAN_BLOCK_LETS, 'cl', notes)
    L = ['/- GENERATED by gen/g_idle.py from /repo/src/kanata/mod.rs — do not edit. -/',
         'import KVerif.Model.IdleTag', 'namespace KVerif.Gen.Idle', 'open KVerif.K', '']
    L += notes
    L.append('/-- the conjuncts of the expression `Kanata::is_idle` returns, in source order -/')
    L.append('def isIdleSrc : List IdleTag := [' + ', '.join(idle_tags) + ']')
    L.append('/-- the `let`s in front of it -/')
    L.append('def isIdleLets : List IdleLet := [' + ', '.join(idle_lets) + ']')
    L.append('/-- the conjuncts of the expression `Kanata::can_block_update_idle_waiting` returns -/')
    L.append('def canBlockSrc : List BlockTag := [' + ', '.join(cb_tags) + ']')
    L.append('/-- the statements in front of it (perf logging aside) -/')
    L.append('def canBlockLets : List BlockLet := [' + ', '.join(cb_lets) + ']')
    L += ['', 'end KVerif.Gen.Idle']
    emit('IdleFields.lean', '\n'.join(L) + '\n')
