"""G4 (DESIGN.md §2.2): what `do_live_reload` replaces, read from src/kanata/mod.rs.

Emits lean/KVerif/Gen/ReloadFields.lean:
  * `Field`            one constructor per field of `struct Kanata` that exists in the checked build
                       (linux; features tcp_server, zippychord, simulated_output) plus one pseudo-field
                       `G_<NAME>` per process-global store written by the constructors / do_live_reload
  * `reloadSteps`      the statements of `do_live_reload` in source order, as a small program
                       (parse | fallible call | assign field | notify | unknown) — Model/Reload.lean
                       INTERPRETS this list
  * `ctorNew`, `ctorNewFromStr`   (field, initialiser mentions `cfg`) per constructor
  * `writeSites`       every function that writes one of the reload bookkeeping fields
Self-checks: every struct field must be found in both constructors; brace matching must close.
"""
import re

BUILD_OS = 'linux'
BUILD_FEATURES = {'tcp_server', 'zippychord', 'simulated_output'}


# ------------------------------------------------------------------ cfg(...) predicates
def _split_args(s):
    out, depth, cur, instr = [], 0, '', False
    for ch in s:
        if ch == '"':
            instr = not instr
        if not instr:
            if ch == '(':
                depth += 1
            elif ch == ')':
                depth -= 1
            elif ch == ',' and depth == 0:
                out.append(cur.strip())
                cur = ''
                continue
        cur += ch
    if cur.strip():
        out.append(cur.strip())
    return out


def cfg_eval(p):
    p = p.strip()
    m = re.fullmatch(r'(all|any|not)\((.*)\)', p, flags=re.S)
    if m:
        args = [cfg_eval(a) for a in _split_args(m.group(2))]
        if m.group(1) == 'all':
            return all(args)
        if m.group(1) == 'any':
            return any(args)
        return not args[0]
    m = re.fullmatch(r'target_os\s*=\s*"([^"]*)"', p)
    if m:
        return m.group(1) == BUILD_OS
    m = re.fullmatch(r'feature\s*=\s*"([^"]*)"', p)
    if m:
        return m.group(1) in BUILD_FEATURES
    if p == 'jtroo_kanata_verif':
        return True
    if re.fullmatch(r'\w+', p):
        return False          # test, debug_assertions-like bare flags: not set
    raise SystemExit(f'gen(g_reload): cannot evaluate cfg predicate {p!r}')


def strip_comments(src):
    out, i, n = [], 0, len(src)
    instr = False
    while i < n:
        ch = src[i]
        if instr:
            out.append(ch)
            if ch == '\\' and i + 1 < n:
                out.append(src[i + 1])
                i += 2
                continue
            if ch == '"':
                instr = False
            i += 1
            continue
        if ch == '"':
            instr = True
            out.append(ch)
            i += 1
            continue
        if src.startswith('//', i):
            j = src.find('\n', i)
            i = n if j < 0 else j
            continue
        if src.startswith('/*', i):
            j = src.find('*/', i)
            i = n if j < 0 else j + 2
            continue
        out.append(ch)
        i += 1
    return ''.join(out)


def match_close(src, i, open_ch='{', close_ch='}'):
    """src[i] == open_ch; return index of the matching close (string-aware)."""
    assert src[i] == open_ch, (src[i - 20:i + 20])
    depth, instr, n = 0, False, len(src)
    j = i
    while j < n:
        ch = src[j]
        if instr:
            if ch == '\\':
                j += 2
                continue
            if ch == '"':
                instr = False
        elif ch == '"':
            instr = True
        elif ch == "'" and j + 2 < n and src[j + 2] == "'":
            j += 3           # char literal like '{'
            continue
        elif ch == open_ch:
            depth += 1
        elif ch == close_ch:
            depth -= 1
            if depth == 0:
                return j
        j += 1
    raise SystemExit('gen(g_reload): unbalanced braces')


def fn_body(src, header_re):
    ms = list(re.finditer(header_re, src))
    if len(ms) != 1:
        raise SystemExit(f'gen(g_reload): {header_re!r}: found {len(ms)} definitions')
    i = src.index('{', ms[0].end())
    # skip the return type etc.: first '{' after the closing ')' of the parameter list
    par = src.index('(', ms[0].start())
    par_end = match_close(src, par, '(', ')')
    i = src.index('{', par_end)
    j = match_close(src, i)
    return src[i + 1:j]


# ------------------------------------------------------------------ statement splitting
def split_items(body, sep, angle=False):
    """split `body` at `sep` (';' for statements, ',' for struct-literal entries) on nesting depth 0;
    a `{...}` block that ends an item on depth 0 also ends a statement (sep == ';')."""
    items, cur, depth, instr, i, n = [], '', 0, False, 0, len(body)
    while i < n:
        ch = body[i]
        if instr:
            cur += ch
            if ch == '\\' and i + 1 < n:
                cur += body[i + 1]
                i += 2
                continue
            if ch == '"':
                instr = False
            i += 1
            continue
        if ch == '"':
            instr = True
        elif ch in '({[' or (angle and ch == '<'):
            depth += 1
        elif angle and ch == '>':
            depth -= 1
        elif ch in ')}]':
            depth -= 1
            if sep == ';' and ch == '}' and depth == 0:
                cur += ch
                # a block closes: statement ends unless followed by ';', '.', '?', 'else'
                rest = body[i + 1:].lstrip()
                if rest.startswith(';'):
                    i = i + 1 + (len(body[i + 1:]) - len(rest)) + 1
                    items.append(cur.strip())
                    cur = ''
                    continue
                if rest.startswith('else') or rest.startswith('.') or rest.startswith('?'):
                    i += 1
                    continue
                items.append(cur.strip())
                cur = ''
                i += 1
                continue
        elif ch == sep and depth == 0:
            items.append(cur.strip())
            cur = ''
            i += 1
            continue
        cur += ch
        i += 1
    if cur.strip():
        items.append(cur.strip())
    return [x for x in items if x]


def peel_attrs(item):
    """leading #[cfg(...)] / #[...] attributes of an item -> (enabled, rest)"""
    enabled = True
    item = item.strip()
    while item.startswith('#['):
        j = match_close(item, 1, '[', ']')
        attr = item[2:j].strip()
        m = re.fullmatch(r'cfg\((.*)\)', attr, flags=re.S)
        if m:
            enabled = enabled and cfg_eval(m.group(1))
        item = item[j + 1:].strip()
    return enabled, item


def flatten(body):
    """enabled statements of a block, descending into bare `{ ... }` blocks"""
    out = []
    for it in split_items(body, ';'):
        en, rest = peel_attrs(it)
        if not en or not rest:
            continue
        if rest.startswith('{') and match_close(rest, 0) == len(rest) - 1:
            out += flatten(rest[1:-1])
        else:
            out.append(re.sub(r'\s+', ' ', rest))
    return out


def has_cfg(s):
    return bool(re.search(r'\bcfg\b', s))


def tf(b):
    return 'true' if b else 'false'


def lean_str(s):
    return '"' + s.replace('\\', '\\\\').replace('"', '\\"') + '"'


KEYWORDS = {'end', 'at', 'from', 'do', 'in', 'if', 'then', 'else', 'fun', 'let', 'have', 'show', 'open', 'where', 'with', 'match'}


def ctor_name(f):
    return '«' + f + '»' if f in KEYWORDS else f


def generate(REPO, emit, read):
    raw = read('src/kanata/mod.rs')
    src = strip_comments(raw)

    # ---------------------------------------------------------------- (a) struct fields
    m = re.search(r'pub struct Kanata\s*\{', src)
    if not m:
        raise SystemExit('gen(g_reload): struct Kanata not found')
    i = src.index('{', m.start())
    j = match_close(src, i)
    fields, other_cfg = [], []
    for it in split_items(src[i + 1:j], ',', angle=True):
        en, rest = peel_attrs(it)
        fm = re.match(r'(?:pub(?:\([a-z]+\))?\s+)?(\w+)\s*:', rest)
        if not fm:
            raise SystemExit(f'gen(g_reload): unrecognised struct item {rest[:60]!r}')
        (fields if en else other_cfg).append(fm.group(1))
    n_colon_lines = len(re.findall(r'^\s*(?:pub(?:\([a-z]+\))?\s+)?\w+\s*:\s', src[i + 1:j], flags=re.M))
    if n_colon_lines != len(fields) + len(other_cfg):
        raise SystemExit(f'gen(g_reload): struct field self-check failed ({n_colon_lines} vs {len(fields) + len(other_cfg)})')
    if len(set(fields)) != len(fields):
        dup = sorted({f for f in fields if fields.count(f) > 1})
        # a field declared under two different cfg predicates that are both true would be a compile error
        raise SystemExit(f'gen(g_reload): duplicate active fields {dup}')

    globals_found = []

    def glob(name):
        if name not in globals_found:
            globals_found.append(name)
        return 'G_' + name

    def classify_stmt(st):
        """-> list of Lean RStep terms (strings) for one flattened statement"""
        if re.match(r'let cfg = match cfg::new_from_file\(', st):
            return ['.parse']
        if re.match(r'(log|info|error)(::\w+)?!', st) or re.match(r'log::\w+!\(', st):
            return []
        mm = re.match(r'self\.(\w+) = (.*)$', st)
        if mm:
            f, rhs = mm.group(1), mm.group(2)
            if f not in fields:
                return [f'.unknown {lean_str(st[:80])}']
            fc = has_cfg(rhs)
            assigns_rhs.append((f, rhs, fc))
            return [f'.assign .{ctor_name(f)} {tf(fc)}']
        mm = re.match(r'self\.(\w+)\.(\w+) = ', st)
        if mm:
            return [f'.unknown {lean_str(st[:80])}']
        mm = re.match(r'\*(\w+)\.lock\(\) = (.*)$', st)
        if mm:
            return [f'.assign .{glob(mm.group(1))} {tf(has_cfg(mm.group(2)))}']
        mm = re.match(r'zch\(\)\.zch_configure\((.*)\)$', st)
        if mm:
            return [f'.assign .{glob("ZCH")} {tf(has_cfg(mm.group(1)))}']
        if re.search(r'\)\?$', st) and not st.startswith('let '):
            callee = st[:st.index('(')].strip()
            return [f'.fallible {lean_str(callee)}']
        mm = re.match(r'if let Some\(tx\) = _?tx \{', st)
        if mm:
            msgs = re.findall(r'ServerMessage::(\w+)', st)
            if len(msgs) == 1:
                return [f'.notify {lean_str(msgs[0])}']
            return [f'.unknown {lean_str(st[:80])}']
        if re.match(r'let cur_layer = self\.layout\.bm\(\)\.current_layer\(\)$', st):
            return ['.bindCurLayer']
        if re.match(r'let new = self\.layer_info\[cur_layer\]\.name\.clone\(\)$', st):
            return []
        if st == 'self.print_layer(cur_layer)':
            return []
        mm = re.fullmatch(r'self\.(\w+)\(\)', st)
        if mm:
            # an infallible helper method: the model decides whether it knows it (`stepKnown`)
            return [f'.effect {lean_str(mm.group(1))}']
        if st == 'Ok(())':
            return []
        return [f'.unknown {lean_str(st[:80])}']

    # ---------------------------------------------------------------- (b) do_live_reload
    assigns_rhs = []
    body = fn_body(src, r'\bfn do_live_reload\s*\(')
    steps = []
    for st in flatten(body):
        steps += classify_stmt(st)
    if '.parse' not in steps:
        raise SystemExit('gen(g_reload): the parse step of do_live_reload was not recognised')
    reset_rhs = [(f, rhs) for (f, rhs, fc) in assigns_rhs if not fc]
    # helper methods called as `self.m();`: which struct fields do their bodies write?
    effect_writes = []
    for st_ in steps:
        mm = re.match(r'\.effect "(\w+)"', st_)
        if not mm:
            continue
        hb = fn_body(src, r'\bfn ' + mm.group(1) + r'\s*\(')
        for fld in fields:
            if re.search(r'\bself\.' + fld + r'\s*(?:\|=|\+=|-=|=(?!=))', hb) or \
               re.search(r'\bself\.' + fld + r'\s*\.\s*(?:push|clear|append|extend|insert|retain|remove|entry|drain)\b', hb):
                effect_writes.append((mm.group(1), fld))

    # ---------------------------------------------------------------- (c) constructors
    def ctor(header_re):
        b = fn_body(src, header_re)
        m2 = re.search(r'Ok\(Self\s*\{', b)
        if not m2:
            raise SystemExit(f'gen(g_reload): {header_re}: Ok(Self {{ not found')
        k = b.index('{', m2.start())
        kend = match_close(b, k)
        inits = []
        for it in split_items(b[k + 1:kend], ','):
            en, rest = peel_attrs(it)
            if not en:
                continue
            rest = re.sub(r'\s+', ' ', rest)
            fm = re.match(r'(\w+)\s*:\s*(.*)$', rest)
            if fm:
                inits.append((fm.group(1), fm.group(2)))
            elif re.fullmatch(r'\w+', rest):
                inits.append((rest, rest))      # shorthand `kbd_out,`
            else:
                raise SystemExit(f'gen(g_reload): unrecognised initialiser {rest[:60]!r}')
        names = [f for f, _ in inits]
        if sorted(names) != sorted(fields):
            raise SystemExit(f'gen(g_reload): {header_re}: initialised fields differ from the struct: '
                             f'{sorted(set(names) ^ set(fields))}')
        # global stores written before the struct literal
        pre = []
        for st in flatten(b[:m2.start()]):
            mm = re.match(r'\*(\w+)\.lock\(\) = (.*)$', st)
            if mm:
                pre.append((glob(mm.group(1)), mm.group(2)))
            mm = re.match(r'zch\(\)\.zch_configure\((.*)\)$', st)
            if mm:
                pre.append((glob('ZCH'), mm.group(1)))
        return inits, pre

    new_inits, new_pre = ctor(r'\bpub fn new\s*\(')
    str_inits, str_pre = ctor(r'\bpub fn new_from_str\s*\(')

    def from_cfg(rhs, name):
        # `kbd_out` (shorthand) is built from cfg.options but is the OS sink, not configuration state
        return has_cfg(rhs) and name != 'kbd_out'

    # ---------------------------------------------------------------- (d) write sites of bookkeeping fields
    book = ['live_reload_requested', 'cur_cfg_idx', 'cfg_paths', 'prev_layer', 'ticks_since_idle',
            'prev_keys', 'cur_keys', 'waiting_for_idle', 'macro_on_press_cancel_duration', 'layout']
    sites = []
    import os

    def scan(rel, text):
        fn_spans = []
        for fm in re.finditer(r'\bfn (\w+)\s*(?:<[^>]*>)?\s*\(', text):
            try:
                par_end = match_close(text, text.index('(', fm.start()), '(', ')')
                bi = text.index('{', par_end)
                semi = text.find(';', par_end)
                if 0 <= semi < bi:
                    continue
                fn_spans.append((fm.group(1), bi, match_close(text, bi)))
            except (ValueError, SystemExit):
                continue

        def enclosing(pos):
            best = None
            for name, a, b in fn_spans:
                if a <= pos <= b and (best is None or a > best[1]):
                    best = (name, a)
            return best[0] if best else '?'

        for f in book:
            pats = [r'\b(?:self|k|kanata)\.' + f + r'\s*(?:\|=|\+=|-=|=(?!=))',
                    r'\b(?:self|k|kanata)\.' + f + r'\s*\.\s*(?:push|clear|append|extend|insert|retain|remove|entry|drain)\b',
                    r'&mut (?:self|k|kanata)\.' + f + r'\b']
            if f == 'cur_keys':
                pats.append(r'\bcur_keys\s*\.\s*(?:push|clear|append|extend|retain)\b')
            found = set()
            for pt in pats:
                for mm in re.finditer(pt, text):
                    found.add(enclosing(mm.start()))
            for fn in sorted(found):
                sites.append((f, (fn if rel == 'src/kanata/mod.rs' else rel + '::' + fn)))

    reads = []

    def scan_reads(rel, text):
        fn_spans = []
        for fm in re.finditer(r'\bfn (\w+)\s*(?:<[^>]*>)?\s*\(', text):
            try:
                par_end = match_close(text, text.index('(', fm.start()), '(', ')')
                bi = text.index('{', par_end)
                semi = text.find(';', par_end)
                if 0 <= semi < bi:
                    continue
                fn_spans.append((fm.group(1), bi, match_close(text, bi)))
            except (ValueError, SystemExit):
                continue
        for f in ['live_reload_requested', 'cur_cfg_idx', 'cfg_paths', 'ticks_since_idle', 'prev_layer']:
            found = set()
            for mm in re.finditer(r'\b(?:self|k|kanata)\.' + f + r'\b', text):
                best = None
                for name, a, b in fn_spans:
                    if a <= mm.start() <= b and (best is None or a > best[1]):
                        best = (name, a)
                if best and best[0].startswith('verif_'):
                    continue            # the verification hooks themselves
                found.add(best[0] if best else '?')
            for fn in sorted(found):
                reads.append((f, (fn if rel == 'src/kanata/mod.rs' else rel + '::' + fn)))

    scan('src/kanata/mod.rs', src)
    scan_reads('src/kanata/mod.rs', src)
    for root, _, files in os.walk(os.path.join(REPO, 'src')):
        for fn_ in sorted(files):
            rel = os.path.relpath(os.path.join(root, fn_), REPO)
            if not fn_.endswith('.rs') or rel == 'src/kanata/mod.rs' or '/tests/' in rel or '/windows/' in rel or '/gui/' in rel or rel.endswith('macos.rs'):
                continue
            scan(rel, strip_comments(read(rel)))
            scan_reads(rel, strip_comments(read(rel)))
    sites.sort()
    reads.sort()

    # ---------------------------------------------------------------- emit
    all_slots = fields + ['G_' + g for g in globals_found]
    L = ['/- GENERATED by gen/g_reload.py from src/kanata/mod.rs — do not edit. -/',
         'namespace KVerif.Gen.Reload', '',
         f'/-- fields of `struct Kanata` in the checked build (target_os = {BUILD_OS}; features {", ".join(sorted(BUILD_FEATURES))})',
         'followed by one pseudo-field `G_<NAME>` per process-global store written by the constructors and by',
         '`do_live_reload`. -/',
         'inductive Field where']
    for s in all_slots:
        L.append(f'  | {ctor_name(s)}')
    L.append('  deriving DecidableEq, Repr, Inhabited')
    L.append('')
    L.append('def Field.name : Field → String')
    for s in all_slots:
        L.append(f'  | .{ctor_name(s)} => {lean_str(s)}')
    L.append('')
    L.append('/-- the struct fields, declaration order -/')
    L.append('def structFields : List Field := [' + ', '.join('.' + ctor_name(f) for f in fields) + ']')
    L.append('/-- process-global stores -/')
    L.append('def globalStores : List Field := [' + ', '.join('.G_' + g for g in globals_found) + ']')
    L.append('/-- every constructor of `Field` -/')
    L.append('def allFields : List Field := structFields ++ globalStores')
    L.append('/-- fields that exist only under other cfg predicates (windows, macos, gui, interception): not in the checked build -/')
    L.append('def otherCfgFields : List String := [' + ', '.join(lean_str(f) for f in other_cfg) + ']')
    L.append('')
    L.append('/-- one statement of `do_live_reload` -/')
    L.append('inductive RStep where')
    L.append('  /-- `let cfg = match cfg::new_from_file(&self.cfg_paths[self.cur_cfg_idx]) { Ok(c) => c, Err(e) => bail!(..) }` -/')
    L.append('  | parse')
    L.append('  /-- `callee(..)?;` — returns early with an error if the call fails -/')
    L.append('  | fallible (callee : String)')
    L.append('  /-- `self.f = rhs;` (or a store into a global); `fromCfg` iff `rhs` mentions `cfg` -/')
    L.append('  | assign (f : Field) (fromCfg : Bool)')
    L.append('  /-- `if let Some(tx) = _tx { tx.try_send(ServerMessage::<msg> {..}) }` -/')
    L.append('  | notify (msg : String)')
    L.append('  /-- `self.<method>();` — an infallible helper that touches no field of the struct -/')
    L.append('  | effect (method : String)')
    L.append('  /-- `let cur_layer = self.layout.bm().current_layer();` -/')
    L.append('  | bindCurLayer')
    L.append('  /-- a statement the translator does not understand: the model refuses it (`steps_all_known`) -/')
    L.append('  | unknown (text : String)')
    L.append('  deriving DecidableEq, Repr')
    L.append('')
    L.append('/-- `do_live_reload`, statement by statement, source order (log lines and `print_layer` omitted) -/')
    L.append('def reloadSteps : List RStep := [')
    L.append(',\n'.join('  ' + s for s in steps))
    L.append(']')
    L.append('')
    L.append('/-- (helper method, field) for every struct field that a helper called as `self.m();` assigns or mutates in place -/')
    L.append('def effectWrites : List (String × String) := [' + ', '.join(f'({lean_str(m_)}, {lean_str(f_)})' for m_, f_ in effect_writes) + ']')
    L.append('')
    L.append('/-- right-hand sides of the assignments that do not mention `cfg` -/')
    L.append('def reloadResetRhs : List (Field × String) := [' + ', '.join(f'(.{ctor_name(f)}, {lean_str(r)})' for f, r in reset_rhs) + ']')
    L.append('')
    for nm, inits, pre in (('ctorNew', new_inits, new_pre), ('ctorNewFromStr', str_inits, str_pre)):
        L.append(f'/-- initialisers of `Kanata::{"new" if nm == "ctorNew" else "new_from_str"}`: (field, initialiser mentions `cfg`) -/')
        ent = [f'(.{ctor_name(f)}, {tf(from_cfg(r, f))})' for f, r in inits]
        ent += [f'(.{g}, {tf(has_cfg(r))})' for g, r in pre]
        L.append(f'def {nm} : List (Field × Bool) := [' + ', '.join(ent) + ']')
    L.append('')
    L.append('/-- initialisers that do not mention `cfg`, as text: (field, rhs in `new`, rhs in `new_from_str`) -/')
    d2 = dict(str_inits)
    L.append('def ctorConstRhs : List (Field × String × String) := [' + ', '.join(
        f'(.{ctor_name(f)}, {lean_str(r)}, {lean_str(d2[f])})' for f, r in new_inits if not from_cfg(r, f)) + ']')
    L.append('')
    L.append('/-- (field, function) for every function of src/kanata/mod.rs that writes a reload-bookkeeping field -/')
    L.append('def writeSites : List (String × String) := [' + ', '.join(f'({lean_str(f)}, {lean_str(fn)})' for f, fn in sites) + ']')
    L.append('/-- (field, function) for every function under src/ (linux build) that mentions a reload-bookkeeping field at all -/')
    L.append('def touchSites : List (String × String) := [' + ', '.join(f'({lean_str(f)}, {lean_str(fn)})' for f, fn in reads) + ']')
    L.append('')
    L.append('end KVerif.Gen.Reload')
    emit('ReloadFields.lean', '\n'.join(L) + '\n')
